//! C05 (MTGraph terminates with the reference result), C06 (Graph returns only
//! at quiescence), C07 (cancellation and block failures).
use crate::drip::Data;
use crate::graphs::*;
use crate::rec;
use crate::util::*;
use rustradio::block::{Block, BlockRet};
use rustradio::blocks::*;
use rustradio::graph::{CancellationToken, Graph, GraphRunner};
use rustradio::mtgraph::MTGraph;
use rustradio::verif::Ev;
use rustradio::{Error, Repeat};
use serde_json::{Value, json};
use std::sync::atomic::{AtomicBool, AtomicU64, Ordering};
use std::sync::{Arc, Mutex};
use std::time::{Duration, Instant};

// ------------------------------------------------------------ delay injector

static DELAY_SEED: AtomicU64 = AtomicU64::new(0);
/// ThreadSanitizer build: no callback is installed at all (a recorder that takes a
/// mutex on every event would add happens-before edges and hide races), so the
/// event-based stuck rule is off and only the result oracle is used.
static TSAN_MODE: AtomicBool = AtomicBool::new(false);
static CANCEL_AT_YIELD: AtomicU64 = AtomicU64::new(u64::MAX);
static YIELD_NO: AtomicU64 = AtomicU64::new(0);
static CANCEL_TOKEN: Mutex<Option<CancellationToken>> = Mutex::new(None);
static CANCEL_SITE: Mutex<Option<String>> = Mutex::new(None);

thread_local! {
    static TL_RNG: std::cell::RefCell<Option<(u64, Rng, usize)>> = const { std::cell::RefCell::new(None) };
}

/// C07 "cancel-before-run": trigger the token after the graph is built and
/// before run() is entered ("at any moment" includes a Ctrl-C racing start-up).
static CANCEL_BEFORE_RUN: AtomicBool = AtomicBool::new(false);

fn do_cancel(site: &str) {
    if let Some(t) = CANCEL_TOKEN.lock().unwrap().as_ref() {
        t.cancel();
        CANCELLED.store(true, Ordering::SeqCst);
        *CANCEL_SITE.lock().unwrap() = Some(site.to_string());
    }
}

/// PCT-style delays: each thread gets a seeded slowness class; at yield points
/// (outside any library lock) slow threads yield or sleep, rarely longer than
/// the 100 ms wait time-out so that time-outs fire.
fn yield_handler(ev: &Ev) {
    let n = YIELD_NO.fetch_add(1, Ordering::SeqCst);
    if n == CANCEL_AT_YIELD.load(Ordering::SeqCst) {
        if let Ev::Yield { site, .. } = ev {
            do_cancel(&format!("{site:?}@{}", std::thread::current().name().unwrap_or("main")));
        }
    }
    let seed = DELAY_SEED.load(Ordering::Relaxed);
    if seed == 0 {
        return;
    }
    TL_RNG.with(|c| {
        let mut c = c.borrow_mut();
        if c.as_ref().map(|x| x.0) != Some(seed) {
            let mut r = Rng::new(hmix(seed, rec::role()));
            let class = r.below(4); // 0: never delayed .. 3: often
            *c = Some((seed, r, class));
        }
        let (_, rng, class) = c.as_mut().unwrap();
        let den = match *class {
            0 => return,
            1 => 200,
            2 => 30,
            _ => 6,
        };
        if !rng.chance(1, den) {
            return;
        }
        match rng.below(100) {
            0..=49 => std::thread::yield_now(),
            50..=93 => std::thread::sleep(Duration::from_micros(20 + rng.below(500) as u64)),
            94..=98 => std::thread::sleep(Duration::from_millis(1 + rng.below(3) as u64)),
            _ => std::thread::sleep(Duration::from_millis(105 + rng.below(30) as u64)),
        }
    });
}

pub fn install_delays(seed: u64) {
    DELAY_SEED.store(seed, Ordering::SeqCst);
    rec::set_yield_handler(Some(Arc::new(yield_handler)));
}
pub fn remove_delays() {
    DELAY_SEED.store(0, Ordering::SeqCst);
    rec::set_yield_handler(None);
}

// ------------------------------------------------------------------ monitor

/// Context for a fatal report if run() can not be stopped: (property, case json).
pub static FATAL_CTX: Mutex<Option<(String, Value)>> = Mutex::new(None);

pub struct Monitor {
    stop: Arc<AtomicBool>,
    pub stuck: Arc<AtomicBool>,
    pub watchdog: Arc<AtomicBool>,
    handle: Option<std::thread::JoinHandle<()>>,
}

impl Monitor {
    /// Logical stuck rule: since the last progress event (data moved, block
    /// dropped) every live block has been called `min_calls` more times.
    pub fn start(stats: Vec<Arc<ProbeStats>>, token: CancellationToken, min_calls: u64, wall: Duration) -> Monitor {
        let stop = Arc::new(AtomicBool::new(false));
        let stuck = Arc::new(AtomicBool::new(false));
        let watchdog = Arc::new(AtomicBool::new(false));
        let (s2, st2, w2) = (stop.clone(), stuck.clone(), watchdog.clone());
        let handle = std::thread::Builder::new()
            .name("verif-monitor".into())
            .spawn(move || {
                let t0 = Instant::now();
                let mut last = rec::data_events();
                let mut snap: Vec<u64> = stats.iter().map(|s| s.calls.load(Ordering::SeqCst)).collect();
                let mut parked: Option<(Instant, Vec<(i32, u64)>)> = None;
                while !s2.load(Ordering::SeqCst) {
                    std::thread::sleep(Duration::from_millis(5));
                    if CANCELLED.load(Ordering::SeqCst) {
                        break; // cancelled by the scenario: go to the post-cancel watch
                    }
                    let now = rec::data_events();
                    if now != last {
                        last = now;
                        snap = stats.iter().map(|s| s.calls.load(Ordering::SeqCst)).collect();
                        parked = None;
                        continue;
                    }
                    let live: Vec<usize> = (0..stats.len()).filter(|&i| !stats[i].dropped.load(Ordering::SeqCst)).collect();
                    // A live block that is outside work() and made no call at all while
                    // another one made 40+ (each followed by a 100 ms wait) is not running
                    // any more (its thread has ended): it cannot contribute. A block that
                    // is *inside* a work() call is computing (the derive macro's per-sample
                    // tag filter takes seconds on a full 4 MB stream with ~1500 tags): that
                    // is progress pending, never "stuck"; only the wall-clock watchdog
                    // (inconclusive) bounds it.
                    let delta = |i: usize| stats[i].calls.load(Ordering::SeqCst).saturating_sub(snap[i]);
                    let busiest = live.iter().map(|&i| delta(i)).max().unwrap_or(0);
                    let computing = live.iter().any(|&i| delta(i) == 0 && stats[i].in_work.load(Ordering::SeqCst));
                    if !live.is_empty()
                        && !computing
                        && busiest >= min_calls
                        && live.iter().all(|&i| delta(i) >= min_calls || (delta(i) == 0 && busiest >= min_calls.saturating_mul(10).max(40)))
                        && rec::data_events() == last
                    {
                        st2.store(true, Ordering::SeqCst);
                        token.cancel();
                        break;
                    }
                    // Blocked-forever rule (MTGraph): every thread named after a live
                    // block sleeps (state S) without a single wake-up for 5 s while no
                    // data moves. All waits of the library are 100 ms timed waits, so a
                    // healthy parked thread blocks again ten times a second; see
                    // util::Supervised. Such threads cannot be woken by the token
                    // either: report and leave the process.
                    let names: Vec<String> = live.iter().map(|&i| stats[i].name.lock().unwrap().clone()).collect();
                    let tids = tasks_named(&names);
                    let asleep: Vec<(i32, u64)> = tids.iter().filter_map(|&t| task_stat(t).and_then(|(st, v)| if st == 'S' { Some((t, v)) } else { None })).collect();
                    if !tids.is_empty() && asleep.len() == tids.len() {
                        match &parked {
                            Some((p0, v0)) if *v0 == asleep => {
                                if p0.elapsed() >= Duration::from_secs(5) {
                                    if let Some((prop, case)) = FATAL_CTX.lock().unwrap().clone() {
                                        fatal_violation(
                                            &prop,
                                            &format!("{prop}|block-threads-blocked-forever"),
                                            &format!("run() cannot return: no data moved and every remaining block thread {names:?} slept without a single wake-up for 5 s ((tid, voluntary context switches) {asleep:?}); the library's waits are 100 ms timed waits; case {case}"),
                                            case,
                                        );
                                    }
                                }
                            }
                            _ => parked = Some((Instant::now(), asleep)),
                        }
                    } else {
                        parked = None;
                    }
                    if t0.elapsed() > wall {
                        w2.store(true, Ordering::SeqCst);
                        token.cancel();
                        break;
                    }
                }
                // The token is cancelled by now (by the scenario or by the rule
                // above). A runner that keeps going regardless cannot be stopped
                // from here: judge by logical steps, then leave the process.
                if (token.is_canceled() || CANCELLED.load(Ordering::SeqCst)) && !s2.load(Ordering::SeqCst) {
                    let snap: Vec<u64> = stats.iter().map(|s| s.calls.load(Ordering::SeqCst)).collect();
                    let t1 = Instant::now();
                    // wake-up counters of the block threads at the moment of cancellation
                    let names0: Vec<String> = (0..stats.len()).filter(|&i| !stats[i].dropped.load(Ordering::SeqCst)).map(|i| stats[i].name.lock().unwrap().clone()).collect();
                    let woke0: std::collections::HashMap<i32, u64> = tasks_named(&names0).into_iter().filter_map(|t| task_stat(t).map(|(_, v)| (t, v))).collect();
                    while !s2.load(Ordering::SeqCst) && t1.elapsed() < Duration::from_secs(20) {
                        std::thread::sleep(Duration::from_millis(20));
                        let live: Vec<usize> = (0..stats.len()).filter(|&i| !stats[i].dropped.load(Ordering::SeqCst)).collect();
                        // A parked block thread notices the token when its (100 ms timed) wait
                        // returns, i.e. after one or two wake-ups. A thread that has woken 40
                        // times since cancel() while no block made a single further call is
                        // looping inside a wait that never hands control back to the runner.
                        // (Counted in the thread's own wake-ups, not in seconds.)
                        let no_calls = live.iter().all(|&i| stats[i].calls.load(Ordering::SeqCst) == snap[i]);
                        if no_calls && !live.is_empty() {
                            let names: Vec<String> = live.iter().map(|&i| stats[i].name.lock().unwrap().clone()).collect();
                            let late: Vec<(i32, u64)> = tasks_named(&names).into_iter().filter_map(|t| match (task_stat(t), woke0.get(&t)) {
                                (Some((_, v)), Some(v0)) if v >= v0 + 40 => Some((t, v - v0)),
                                _ => None,
                            }).collect();
                            if !late.is_empty() {
                                if let Some((prop, case)) = FATAL_CTX.lock().unwrap().clone() {
                                    fatal_violation(
                                        &prop,
                                        &format!("{prop}|parked-thread-ignores-cancel"),
                                        &format!("cancel() was called but run() does not return: block threads (tid, wake-ups since cancel) {late:?} of {names:?} keep waking up inside a stream wait without returning to the runner, and no block has been called again; case {case}"),
                                        case,
                                    );
                                }
                            }
                        }
                        let many = !live.is_empty() && live.iter().all(|&i| stats[i].calls.load(Ordering::SeqCst) >= snap[i] + 500);
                        if many {
                            if let Some((prop, case)) = FATAL_CTX.lock().unwrap().clone() {
                                let calls: Vec<u64> = stats.iter().map(|s| s.calls.load(Ordering::SeqCst)).collect();
                                fatal_violation(
                                    &prop,
                                    &format!("{prop}|runner-does-not-stop-after-cancel"),
                                    &format!("cancel() was called (token reads cancelled now: {}) but run() does not return: every live block was called 500+ more times after cancellation; work() calls per block {calls:?}; case {case}", token.is_canceled()),
                                    case,
                                );
                            }
                            break;
                        }
                    }
                }
            })
            .unwrap();
        Monitor {
            stop,
            stuck,
            watchdog,
            handle: Some(handle),
        }
    }
    pub fn finish(&mut self) {
        self.stop.store(true, Ordering::SeqCst);
        if let Some(h) = self.handle.take() {
            let _ = h.join();
        }
    }
}

fn task_count() -> usize {
    std::fs::read_dir("/proc/self/task").map(|d| d.count()).unwrap_or(0)
}

pub struct RunOutcome {
    pub result: Result<Result<(), String>, String>, // outer Err = panic
    pub stuck: bool,
    pub watchdog: bool,
    pub sink: Data,
    pub all_dropped: bool,
    pub tasks_leaked: bool,
    pub interleaving: u64,
    pub wraps: u64,
    pub fulls: u64,
    pub events: usize,
    pub stats: Vec<Arc<ProbeStats>>,
    pub graph: Option<Graph>,
    /// Times the watcher thread held the VectorSink's data guard during the run.
    pub sink_looks: u64,
}

fn analyse_log(log: &[rec::Rec]) -> (u64, u64, u64) {
    use std::collections::HashMap;
    let mut caps: HashMap<usize, usize> = HashMap::new();
    let mut h = 0xcbf29ce484222325u64;
    let mut wraps = 0;
    let mut fulls = 0;
    for r in log {
        match r.ev {
            Ev::BufferCreated { id, capacity, elem } => {
                caps.insert(id, capacity / std::cmp::max(1, elem));
            }
            Ev::Produce { id, n, wpos, used, .. } => {
                h = hmix(h, r.role ^ 1);
                if n > 0 && wpos < n && wpos != 0 {
                    wraps += 1;
                }
                if caps.get(&id) == Some(&used) {
                    fulls += 1;
                }
            }
            Ev::Consume { .. } => {
                h = hmix(h, r.role ^ 2);
            }
            Ev::NcPushed { .. } => h = hmix(h, r.role ^ 3),
            Ev::NcPopped { got: true, .. } => h = hmix(h, r.role ^ 4),
            _ => {}
        }
    }
    (h, wraps, fulls)
}

/// Run a built graph on MTGraph (mt=true) or Graph with blocks added in `order`.
pub fn run_graph(built: BuiltGraph, order: &[usize], mt: bool, delay_seed: u64, min_calls: u64) -> RunOutcome {
    let tsan = TSAN_MODE.load(Ordering::SeqCst);
    let (delay_seed, min_calls) = if tsan { (0, u64::MAX / 2) } else { (delay_seed, min_calls) };
    if tsan {
        rec::uninstall();
    } else {
        rec::install(true);
    }
    rec::set_record_yields(false);
    CANCELLED.store(false, Ordering::SeqCst);
    DELAY_SEED.store(delay_seed, Ordering::SeqCst);
    if !tsan {
        rec::set_yield_handler(Some(Arc::new(yield_handler)));
    }
    let base_tasks = task_count();
    let stats: Vec<Arc<ProbeStats>> = built.blocks.iter().map(|b| b.1.clone()).collect();
    let sink = built.sink.clone();
    let _application_side_stream_ends = built.keep; // alive until run() has returned
    let mut slots: Vec<Option<Box<dyn Block + Send>>> = built.blocks.into_iter().map(|b| Some(b.0)).collect();
    let mut mtg = MTGraph::new();
    let mut stg = Graph::new();
    for &i in order {
        let b = slots[i].take().expect("order is a permutation");
        if mt {
            mtg.add(b);
        } else {
            stg.add(b);
        }
    }
    let token = if mt { mtg.cancel_token() } else { stg.cancel_token() };
    *CANCEL_TOKEN.lock().unwrap() = Some(token.clone());
    if CANCEL_BEFORE_RUN.swap(false, Ordering::SeqCst) {
        do_cancel("before-run()");
    }
    let mut mon = Monitor::start(stats.clone(), token, min_calls, Duration::from_secs(120));
    // A second thread watching the VectorSink through its hook: holds the data
    // guard for 20-400 us at a time, as a test or UI thread would.
    let watch_stop = Arc::new(AtomicBool::new(false));
    let watcher = sink.watcher().map(|w| {
        let stop = watch_stop.clone();
        let mut r = Rng::new(delay_seed ^ 0x57A7C4);
        std::thread::Builder::new()
            .name("verif-sink-watcher".into())
            .spawn(move || {
                let mut looks = 0u64;
                while !stop.load(Ordering::SeqCst) {
                    w(Duration::from_micros(20 + r.below(380) as u64));
                    looks += 1;
                    std::thread::sleep(Duration::from_micros(10 + r.below(200) as u64));
                }
                looks
            })
            .unwrap()
    });
    let result = catch(|| if mt { mtg.run() } else { stg.run() }).map(|r| r.map_err(|e| format!("{e}")));
    watch_stop.store(true, Ordering::SeqCst);
    let sink_looks = watcher.map(|h| h.join().unwrap_or(0)).unwrap_or(0);
    mon.finish();
    DELAY_SEED.store(0, Ordering::SeqCst);
    rec::set_yield_handler(None);
    *CANCEL_TOKEN.lock().unwrap() = None;
    let stuck = mon.stuck.load(Ordering::SeqCst);
    let watchdog = mon.watchdog.load(Ordering::SeqCst);
    let mut tasks_leaked = false;
    if mt && !tsan {
        drop(mtg);
        // thread table entries disappear slightly after join
        let t0 = Instant::now();
        loop {
            if task_count() <= base_tasks {
                break;
            }
            if t0.elapsed() > Duration::from_secs(2) {
                tasks_leaked = true;
                break;
            }
            std::thread::sleep(Duration::from_millis(2));
        }
    }
    let log = rec::take();
    let (interleaving, wraps, fulls) = analyse_log(&log);
    let all_dropped = stats.iter().all(|s| s.dropped.load(Ordering::SeqCst));
    RunOutcome {
        result,
        stuck,
        watchdog,
        sink: sink.data(),
        all_dropped,
        tasks_leaked,
        interleaving,
        wraps,
        fulls,
        events: log.len(),
        stats,
        graph: if mt { None } else { Some(stg) },
        sink_looks,
    }
}

fn permutation(rng: &mut Rng, n: usize, kind: usize) -> Vec<usize> {
    let mut v: Vec<usize> = (0..n).collect();
    match kind {
        0 => {}
        1 => v.reverse(),
        _ => rng.shuffle(&mut v),
    }
    v
}

#[derive(Clone, Debug)]
pub struct GCase {
    pub prog_seed: u64,
    pub order_seed: u64,
    pub order_kind: usize,
    pub delay_seed: u64,
    pub max_ops: usize,
}
impl GCase {
    fn to_json(&self, p: &Program) -> Value {
        json!({"prog_seed": self.prog_seed.to_string(), "order_seed": self.order_seed.to_string(), "order_kind": self.order_kind,
               "delay_seed": self.delay_seed.to_string(), "max_ops": self.max_ops, "program": p.describe()})
    }
    fn from_json(v: &Value) -> Option<GCase> {
        Some(GCase {
            prog_seed: v["prog_seed"].as_str()?.parse().ok()?,
            order_seed: v["order_seed"].as_str()?.parse().ok()?,
            order_kind: v["order_kind"].as_u64()? as usize,
            delay_seed: v["delay_seed"].as_str()?.parse().ok()?,
            max_ops: v["max_ops"].as_u64()? as usize,
        })
    }
}

fn describe_diff(got: &Data, want: &Data) -> String {
    match got.first_diff(want) {
        None => "equal".into(),
        Some(at) => format!(
            "sink holds {} items, reference {}; first difference at {at}: sink {} vs reference {}",
            got.len(),
            want.len(),
            if at < got.len() { got.describe(at) } else { "<end>".into() },
            if at < want.len() { want.describe(at) } else { "<end>".into() }
        ),
    }
}

// ---------------------------------------------------------------------- C05

fn c05_case(c: &GCase, rep: &mut Report) -> Vec<(String, String)> {
    let mut prng = Rng::new(c.prog_seed);
    let p = gen_program(&mut prng, c.max_ops, true);
    let mut out = Vec::new();
    // the sequential reference executor needs the event counter (also in the
    // sanitizer build: it is single-threaded; run_graph removes the callback again)
    rec::install(true);
    let reference = match reference(&p) {
        Ok(d) => d,
        Err(e) => {
            rep.inconclusive(format!("reference executor failed: {e} for {}", p.describe()));
            return out;
        }
    };
    rec::clear();
    let built = build(&p, false);
    let n = built.blocks.len();
    let order = permutation(&mut Rng::new(c.order_seed), n, c.order_kind);
    *FATAL_CTX.lock().unwrap() = Some(("C05".into(), c.to_json(&p)));
    let o = run_graph(built, &order, true, c.delay_seed, 4);
    rep.count("mt_runs", 1);
    rep.count("events", o.events as u64);
    rep.count("ring_wraps", o.wraps);
    rep.count("ring_full_instants", o.fulls);
    if o.wraps > 0 {
        rep.count("runs_with_wrap", 1);
    }
    if o.fulls > 0 {
        rep.count("runs_with_full_ring", 1);
    }
    rep.distinct(hmix(c.prog_seed, o.interleaving));
    rep.max("blocks", n as u64);
    if o.watchdog {
        rep.abandoned(format!("wall-clock watchdog fired for {}", p.describe()));
        return out;
    }
    if o.stuck {
        let live: Vec<String> = o.stats.iter().filter(|s| !s.dropped.load(Ordering::SeqCst) || true).map(|s| format!("{}:{}calls", s.name.lock().unwrap(), s.calls.load(Ordering::SeqCst))).collect();
        out.push(("does-not-terminate".into(), format!("run() did not return: no data moved and no block exited while every live block was called 4+ more times (cancelled by the monitor); blocks {live:?}; program {}", p.describe())));
        return out;
    }
    match &o.result {
        Err(pn) => out.push((format!("run-panicked|{}", sig_of_msg(pn)), format!("run() panicked: {pn}; program {}", p.describe()))),
        Ok(Err(e)) => out.push(("run-returned-error".into(), format!("run() returned Err({e}); program {}", p.describe()))),
        Ok(Ok(())) => {
            if o.sink.first_diff(&reference).is_some() {
                let class = if o.sink.len() < reference.len() && o.sink.is_prefix_of(&reference) {
                    "result-truncated"
                } else {
                    "result-differs"
                };
                out.push((class.into(), format!("{}; add order {order:?}; program {}", describe_diff(&o.sink, &reference), p.describe())));
            }
            if !o.all_dropped {
                out.push(("blocks-not-dropped".into(), format!("run() returned but not every block was dropped; program {}", p.describe())));
            }
            if o.tasks_leaked {
                out.push(("threads-left".into(), format!("thread count did not return to baseline after run(); program {}", p.describe())));
            }
        }
    }
    if rep.want_sample() {
        rep.sample(json!({"case": c.to_json(&p), "add_order": order, "events": o.events, "sink_items": o.sink.len()}));
    }
    out
}

// ---------------------------------------------------------------------- C06

/// (block type, verdict) pairs that, on the pinned tree, come from a call in
/// which the block also moved data (by design of their work()): the recorded
/// C06 finding is about exactly these in the deciding pass. "wait-in/-out" =
/// WaitForStream naming one of the block's inputs / outputs (told apart by
/// which yield point a non-blocking wait(0) on the named stream passes). The
/// set is what 360 000 generated runs showed (six quick seeds and one thorough
/// run); any other pair, e.g. a Delay that starts answering "wait on my output"
/// after writing part of its zeroes, is reported.
const KNOWN_MOVERS: &[&str] = &[
    "CollectSink/wait-in",
    "VectorSink/wait-in",
    "Delay/wait-in",
    "FftFilter/wait-in",
    "FftFilter/wait-out",
    "FftFilterFloat/func",
    "RationalResampler/wait-in",
    "RationalResampler/wait-out",
    "VectorSource/eof",
];

/// Executable model of the termination rule that the known finding is about:
/// call every live block in add order; stop after a pass in which nobody
/// answered Again/Pending. Run on the same program, stream size and add order,
/// it predicts exactly what the recorded defect delivers; a real run that
/// delivers something else is a different defect.
fn known_rule_model(p: &Program, order: &[usize]) -> Result<Data, String> {
    let built = build(p, false);
    let sink = built.sink.clone();
    let mut slots: Vec<Option<Box<dyn Block + Send>>> = built.blocks.into_iter().map(|b| Some(b.0)).collect();
    let mut blocks: Vec<Box<dyn Block + Send>> = order.iter().map(|&i| slots[i].take().unwrap()).collect();
    let mut eof = vec![false; blocks.len()];
    for _ in 0..5_000_000u64 {
        let mut done = true;
        for (n, b) in blocks.iter_mut().enumerate() {
            if eof[n] {
                continue;
            }
            let ret = b.work().map_err(|e| format!("{e}"))?;
            // 0 Again/Pending, 1 WaitForFunc, 2 WaitForStream(open), 3 WaitForStream(closed), 4 EOF
            let kind = match &ret {
                BlockRet::Again | BlockRet::Pending => 0,
                BlockRet::WaitForFunc(_) => 1,
                BlockRet::WaitForStream(s, _) => {
                    if s.closed() {
                        3
                    } else {
                        2
                    }
                }
                BlockRet::EOF => 4,
            };
            drop(ret);
            match kind {
                0 => done = false,
                1 | 2 => {
                    if b.eof() {
                        eof[n] = true;
                    }
                }
                3 => {
                    let _ = b.eof();
                    eof[n] = true;
                }
                _ => eof[n] = true,
            }
        }
        if done {
            return Ok(sink.data());
        }
    }
    Err("model did not terminate".into())
}

fn c06_case(c: &GCase, rep: &mut Report) -> Vec<(String, String)> {
    let mut prng = Rng::new(c.prog_seed);
    let p = gen_program(&mut prng, c.max_ops, true);
    let mut out = Vec::new();
    let reference = match reference(&p) {
        Ok(d) => d,
        Err(e) => {
            rep.inconclusive(format!("reference executor failed: {e} for {}", p.describe()));
            return out;
        }
    };
    rec::clear();
    let built = build(&p, false);
    let n = built.blocks.len();
    let order = permutation(&mut Rng::new(c.order_seed), n, c.order_kind);
    *FATAL_CTX.lock().unwrap() = Some(("C06".into(), c.to_json(&p)));
    let mut o = run_graph(built, &order, false, 0, 64);
    rep.count("graph_runs", 1);
    if o.sink_looks > 0 {
        rep.count("runs_with_watched_vector_sink", 1);
        rep.count("sink_guard_holds_during_runs", o.sink_looks);
    }
    rep.count("events", o.events as u64);
    rep.count("ring_wraps", o.wraps);
    rep.distinct(hmix(c.prog_seed, fnv_str(&format!("{order:?}"))));
    if o.watchdog {
        rep.abandoned(format!("wall-clock watchdog fired for {}", p.describe()));
        return out;
    }
    if o.stuck {
        out.push(("does-not-terminate".into(), format!("Graph::run() kept calling blocks (64+ calls each) without any data moving; program {}", p.describe())));
        return out;
    }
    match &o.result {
        Err(pn) => out.push((format!("run-panicked|{}", sig_of_msg(pn)), format!("run() panicked: {pn}; program {}", p.describe()))),
        Ok(Err(e)) => out.push(("run-returned-error".into(), format!("run() returned Err({e}); program {}", p.describe()))),
        Ok(Ok(())) => {
            // Final-pass verdict vector (each block's last call).
            let last: Vec<(String, u8, bool)> = o.stats.iter().map(|s| {
                let l = *s.last.lock().unwrap();
                (s.name.lock().unwrap().clone(), l.0, l.1)
            }).collect();
            let moving_non_again = last.iter().any(|(_, v, m)| *m && *v != 0);
            rep.set("final_pass_verdicts", format!("{:?}", last.iter().map(|l| (l.1, l.2)).collect::<Vec<_>>()));
            // Quiescence probe: call every block again; no data may move.
            let mut g = o.graph.take().unwrap();
            let before = rec::data_events();
            let mut moved_by = Vec::new();
            for round in 0..3 {
                for (i, b) in g.verif_blocks_mut().iter_mut().enumerate() {
                    let b4 = rec::data_events();
                    let _ = catch(|| b.work().map(|r| matches!(r, BlockRet::EOF)));
                    if rec::data_events() != b4 && round == 0 {
                        moved_by.push(b.block_name().to_string() + &format!("#{i}"));
                    }
                }
            }
            let not_quiescent = rec::data_events() != before;
            rep.count("quiescence_probes", 1);
            let backlog = reference.len().saturating_sub(o.sink.len());
            if not_quiescent {
                rep.count("returned_with_backlog", 1);
                // Is this exactly what the recorded termination rule delivers?
                let model = catch(|| known_rule_model(&p, &order));
                let explained = matches!(&model, Ok(Ok(d)) if d.first_diff(&o.sink).is_none());
                rep.count(if explained { "early_returns_explained_by_known_rule" } else { "early_returns_not_explained_by_known_rule" }, 1);
                // Which block types moved data and answered something else than Again in
                // the deciding pass? The recorded finding names them; a block type that is
                // not among them (e.g. a sync block) points to a different defect.
                let kind = |v: u8| match v { 1 => "pending", 2 => "func", 4 => "eof", 5 => "err", 6 => "wait-in", 7 => "wait-out", _ => "wait" };
                let mut movers: Vec<String> = last.iter().filter(|(_, v, m)| *m && *v != 0).map(|(n, v, _)| format!("{}/{}", n.split('<').next().unwrap_or(n), kind(*v))).collect();
                movers.sort();
                movers.dedup();
                rep.set("final_pass_movers", movers.join(","));
                let unexpected: Vec<&String> = movers.iter().filter(|m| !KNOWN_MOVERS.contains(&m.as_str())).collect();
                let unexpected_class = format!("returned-before-quiescence|unexpected-block-moved-data-with-non-Again-verdict:{}", unexpected.iter().map(|s| s.as_str()).collect::<Vec<_>>().join(","));
                let class = if moving_non_again && explained && unexpected.is_empty() {
                    "returned-before-quiescence|final-pass-had-data-moving-non-Again-call"
                } else if moving_non_again && explained {
                    unexpected_class.as_str()
                } else if moving_non_again {
                    "returned-before-quiescence|delivers-less-than-the-known-termination-rule"
                } else {
                    "returned-before-quiescence|final-pass-quiet"
                };
                out.push((class.into(), format!(
                    "run() returned Ok but blocks could still make progress: {moved_by:?} moved data when called again; sink had {} of {} reference items ({backlog} missing); add order {order:?}; final pass (block, verdict code, moved) {last:?}; program {}",
                    o.sink.len(), reference.len(), p.describe())));
            } else if o.sink.first_diff(&reference).is_some() {
                out.push(("quiescent-but-result-differs".into(), format!("{}; add order {order:?}; program {}", describe_diff(&o.sink, &reference), p.describe())));
            }
            drop(g);
        }
    }
    if rep.want_sample() {
        rep.sample(json!({"case": c.to_json(&p), "add_order": order, "events": o.events, "sink_items": o.sink.len()}));
    }
    out
}

// ---------------------------------------------------------------------- C07

#[derive(Clone, Debug)]
pub struct C07Case {
    pub kind: String, // cancel-outside | cancel-at-yield | cancel-inside | fail
    pub mt: bool,
    pub seed: u64,
    pub k: u64,
    pub pos: usize,
    pub chain: usize,
    pub infinite: bool,
    /// A Tee behind the source whose second output is held by the harness and
    /// never read (an application-side stream end): the graph backs up on it and
    /// its threads are parked in waits that nothing inside the graph can end.
    pub dangling: bool,
}
impl C07Case {
    fn to_json(&self) -> Value {
        json!({"kind": self.kind, "mt": self.mt, "seed": self.seed.to_string(), "k": self.k, "pos": self.pos, "chain": self.chain, "infinite": self.infinite, "dangling": self.dangling})
    }
    fn from_json(v: &Value) -> Option<C07Case> {
        Some(C07Case {
            kind: v["kind"].as_str()?.to_string(),
            mt: v["mt"].as_bool()?,
            seed: v["seed"].as_str()?.parse().ok()?,
            k: v["k"].as_u64()?,
            pos: v["pos"].as_u64()? as usize,
            chain: v["chain"].as_u64()? as usize,
            infinite: v["infinite"].as_bool()?,
            dangling: v["dangling"].as_bool().unwrap_or(false),
        })
    }
}

/// A harness block that cancels the graph from inside its k-th work() call.
struct CancelInside {
    src: rustradio::stream::ReadStream<u8>,
    dst: rustradio::stream::WriteStream<u8>,
    k: u64,
    calls: u64,
}
impl rustradio::block::BlockName for CancelInside {
    fn block_name(&self) -> &str {
        "CancelInside"
    }
}
impl rustradio::block::BlockEOF for CancelInside {
    fn eof(&mut self) -> bool {
        self.src.eof()
    }
}
impl Block for CancelInside {
    fn work(&mut self) -> rustradio::Result<BlockRet> {
        self.calls += 1;
        if self.calls == self.k {
            do_cancel("inside-work");
        }
        let (i, _t) = self.src.read_buf()?;
        if i.is_empty() {
            return Ok(BlockRet::WaitForStream(&self.src, 1));
        }
        let mut o = self.dst.write_buf()?;
        if o.is_empty() {
            return Ok(BlockRet::WaitForStream(&self.dst, 1));
        }
        let n = std::cmp::min(i.len(), o.len());
        o.slice()[..n].copy_from_slice(&i.slice()[..n]);
        o.produce(n, &[]);
        i.consume(n);
        Ok(BlockRet::Again)
    }
}

const FAIL_MSG: &str = "verif-injected-failure-7f3a";

/// A block without streams that fails on its k-th call. Graphs made only of
/// these have no block that ends cleanly.
struct FailSource {
    k: u64,
    calls: u64,
}
impl rustradio::block::BlockName for FailSource {
    fn block_name(&self) -> &str {
        "FailSource"
    }
}
impl rustradio::block::BlockEOF for FailSource {
    fn eof(&mut self) -> bool {
        false
    }
}
impl Block for FailSource {
    fn work(&mut self) -> rustradio::Result<BlockRet> {
        self.calls += 1;
        if self.calls >= self.k {
            return Err(rustradio::Error::msg(FAIL_MSG));
        }
        Ok(BlockRet::Again)
    }
}

fn c07_build(c: &C07Case) -> BuiltGraph {
    let mut rng = Rng::new(c.seed);
    let stream_bytes = *rng.pick(&[4096usize, 4096, 16384, 0]);
    rec::stream_size(stream_bytes);
    let mut blocks: Vec<(Box<dyn Block + Send>, Arc<ProbeStats>)> = Vec::new();
    if c.kind == "fail-alone" {
        // one to three blocks, every one of them failing: nobody ends cleanly
        for _ in 0..1 + c.chain % 3 {
            blocks.push(Probe::wrap(Box::new(FailSource { k: c.k, calls: 0 })));
        }
        rec::stream_size(0);
        return BuiltGraph { blocks, sink: SinkHandle::U8(Arc::new(Mutex::new(Vec::new()))), keep: Vec::new() };
    }
    // Every repetition of a VectorSource carries marker tags, and the derive
    // macro's sync blocks filter the whole tag list once per sample: a backlog
    // of a full default-size (4 MB) stream of tiny repetitions makes one
    // work() call take minutes (6 s were observed with 5671-byte repetitions).
    // That is a cost matter no property speaks about; keep it out of the way.
    let len = if stream_bytes == 0 { rng.range(50_000, 200_000) } else { rng.range(1, 20_000) };
    let data = crate::duts::gen_bytes(&mut rng, len);
    let rep = if c.infinite { Repeat::infinite() } else { Repeat::finite(rng.range(1, 3) as u64) };
    let (s, mut w) = VectorSourceBuilder::new(data).repeat(rep).build();
    blocks.push(Probe::wrap(Box::new(s)));
    let mut keep: Vec<Box<dyn std::any::Any + Send>> = Vec::new();
    if c.dangling {
        let (t, a, b) = Tee::new(w);
        blocks.push(Probe::wrap(Box::new(t)));
        w = a;
        keep.push(Box::new(b));
    }
    for i in 0..c.chain {
        if i == c.pos && (c.kind == "fail" || c.kind == "fail-then-cancel") {
            let (dst, r) = rustradio::stream::new_stream();
            blocks.push(Probe::wrap(Box::new(FailAt { src: w, dst, k: c.k, calls: 0, msg: FAIL_MSG.into() })));
            w = r;
        } else if i == c.pos && c.kind == "cancel-inside" {
            let (dst, r) = rustradio::stream::new_stream();
            blocks.push(Probe::wrap(Box::new(CancelInside { src: w, dst, k: c.k, calls: 0 })));
            w = r;
        } else {
            let (b, r) = XorConst::new(w, rng.next() as u8);
            blocks.push(Probe::wrap(Box::new(b)));
            w = r;
        }
    }
    let got = Arc::new(Mutex::new(Vec::new()));
    blocks.push(Probe::wrap(Box::new(NullSink::new(w))));
    if c.kind == "fail-then-cancel" {
        // An independent sub-graph that keeps running after the chain died,
        // added first so that run() joins it first.
        let (s2, o2) = VectorSourceBuilder::new(vec![1u8; 100]).repeat(Repeat::infinite()).build();
        blocks.insert(0, Probe::wrap(Box::new(NullSink::new(o2))));
        blocks.insert(0, Probe::wrap(Box::new(s2)));
    }
    rec::stream_size(0);
    BuiltGraph { blocks, sink: SinkHandle::U8(got), keep }
}

fn c07_case(c: &C07Case, rep: &mut Report) -> Vec<(String, String)> {
    let mut out = Vec::new();
    rec::clear();
    let built = c07_build(c);
    let n = built.blocks.len();
    let order = if c.kind == "fail-then-cancel" { (0..n).collect() } else { permutation(&mut Rng::new(c.seed ^ 77), n, (c.seed % 3) as usize) };
    let all_stats: Vec<Arc<ProbeStats>> = built.blocks.iter().map(|b| b.1.clone()).collect();
    YIELD_NO.store(0, Ordering::SeqCst);
    CANCEL_AT_YIELD.store(u64::MAX, Ordering::SeqCst);
    *CANCEL_SITE.lock().unwrap() = None;
    let mut outside: Option<std::thread::JoinHandle<()>> = None;
    match c.kind.as_str() {
        "cancel-at-yield" => CANCEL_AT_YIELD.store(c.k, Ordering::SeqCst),
        "cancel-before-run" => CANCEL_BEFORE_RUN.store(true, Ordering::SeqCst),
        "cancel-outside" => {
            let us = c.k;
            outside = Some(std::thread::spawn(move || {
                std::thread::sleep(Duration::from_micros(us));
                // token installed by run_graph; wait for it
                for _ in 0..2000 {
                    if CANCEL_TOKEN.lock().unwrap().is_some() {
                        break;
                    }
                    std::thread::sleep(Duration::from_micros(100));
                }
                do_cancel("outside-thread");
            }));
        }
        "fail-then-cancel" => {
            let us = c.k;
            let st = all_stats.clone();
            outside = Some(std::thread::spawn(move || {
                // wait until the failure has happened, then cancel from outside
                let t0 = Instant::now();
                while st.iter().all(|s| s.errors.load(Ordering::SeqCst) == 0) && t0.elapsed() < Duration::from_secs(20) {
                    std::thread::sleep(Duration::from_micros(200));
                }
                std::thread::sleep(Duration::from_micros(us % 5000));
                do_cancel("outside-thread-after-failure");
            }));
        }
        _ => {}
    }
    *FATAL_CTX.lock().unwrap() = Some(("C07".into(), c.to_json()));
    let mut o = run_graph(built, &order, c.mt, if c.seed % 2 == 0 { c.seed | 1 } else { 0 }, if c.mt { 6 } else { 200 });
    if let Some(h) = outside {
        let _ = h.join();
    }
    CANCEL_AT_YIELD.store(u64::MAX, Ordering::SeqCst);
    let site = CANCEL_SITE.lock().unwrap().clone();
    let runner = if c.mt { "MTGraph" } else { "Graph" };
    rep.count(&format!("runs:{}:{}", c.kind, runner), 1);
    if o.watchdog {
        rep.abandoned(format!("wall-clock watchdog fired for {:?}", c.to_json()));
        return out;
    }
    let cancelled = CANCELLED.load(Ordering::SeqCst);
    if c.kind == "fail" || c.kind == "fail-then-cancel" || c.kind == "fail-alone" {
        if c.kind == "fail-alone" {
            rep.count("runs_in_which_every_block_failed", 1);
        }
        if o.stats.iter().all(|s| s.errors.load(Ordering::SeqCst) == 0) {
            // the finite graph finished before the k-th call: no failure was injected
            rep.count("failure_not_reached", 1);
            return out;
        }
        rep.set("failure_positions", format!("pos{} of {} k{} {}", c.pos, c.chain, c.k, runner));
        match &o.result {
            Err(pn) => out.push((format!("{runner}|block-failure-panics"), format!("run() panicked instead of returning the block's error: {pn}; case {}", c.to_json()))),
            Ok(Ok(())) => {
                if o.stuck {
                    out.push((format!("{runner}|block-failure-hangs"), format!("run() did not return after a block failed; case {}", c.to_json())));
                } else {
                    out.push((format!("{runner}|block-failure-reported-as-success"), format!("run() returned Ok although a block's work() failed; case {}", c.to_json())));
                }
            }
            Ok(Err(e)) => {
                if !e.contains(FAIL_MSG) {
                    out.push((format!("{runner}|block-failure-other-error"), format!("run() returned Err({e}) which does not carry the block's error; case {}", c.to_json())));
                }
                rep.count("failures_reported_as_error", 1);
            }
        }
        if c.mt && o.tasks_leaked {
            out.push((format!("{runner}|threads-left-after-failure"), format!("block threads still running after run() returned; case {}", c.to_json())));
        }
        return out;
    }
    // cancellation kinds
    if let Some(s) = &site {
        rep.set("cancellation_points", format!("{runner}:{s}"));
    }
    if !cancelled {
        // finite graph finished before the cancellation point: nothing to judge
        rep.count("cancel_not_reached", 1);
        if o.stuck && c.dangling {
            // backed up on the unread application-side stream before the scenario's
            // cancellation point; the monitor's own cancel() ended it
            rep.count("dangling_graph_backed_up_and_was_cancelled_by_the_monitor", 1);
        } else if o.stuck {
            out.push((format!("{runner}|does-not-terminate"), format!("run() did not return (no cancellation involved); case {}", c.to_json())));
        }
        return out;
    }
    if o.stuck && c.dangling {
        // The graph backed up on the unread application-side stream and the
        // monitor's stuck rule cancelled it *before* the scenario's own
        // cancellation point was reached (the k-th yield is then passed while
        // the threads wind down): this run says nothing about the scenario.
        rep.count("dangling_graph_backed_up_and_was_cancelled_by_the_monitor", 1);
        return out;
    }
    rep.count("cancellations_judged", 1);
    if o.stuck {
        out.push((format!("{runner}|cancel-ignored"), format!("after cancel() the runner kept calling blocks and run() did not return (monitor had to intervene); cancelled at {site:?}; case {}", c.to_json())));
        return out;
    }
    let bound = if c.mt { 2 } else { 1 };
    let mut maxafter = 0;
    for s in &o.stats {
        let a = s.calls_after_cancel.load(Ordering::SeqCst);
        maxafter = maxafter.max(a);
        if a > bound {
            out.push((format!("{runner}|work-calls-after-cancel"), format!("block {} got {a} work() calls that began after cancel() had returned (bound {bound}); cancelled at {site:?}; case {}", s.name.lock().unwrap(), c.to_json())));
            break;
        }
    }
    rep.max("calls_after_cancel", maxafter);
    match &o.result {
        Err(pn) => out.push((format!("{runner}|run-panicked|{}", sig_of_msg(pn)), format!("run() panicked: {pn}; case {}", c.to_json()))),
        Ok(Err(e)) => out.push((format!("{runner}|cancel-returned-error"), format!("run() returned Err({e}) after cancellation; case {}", c.to_json()))),
        Ok(Ok(())) => {}
    }
    if c.mt && (!o.all_dropped || o.tasks_leaked) {
        out.push((format!("{runner}|threads-left-after-cancel"), format!("dropped={} tasks_leaked={}; case {}", o.all_dropped, o.tasks_leaked, c.to_json())));
    }
    // The token stays triggered: entering run() again on the same graph must
    // return at once, without calling a block and without panicking (the
    // single-threaded runner keeps its blocks and its statistics across runs).
    if let (Some(g), true) = (o.graph.as_mut(), matches!(o.result, Ok(Ok(())))) {
        let before: Vec<u64> = o.stats.iter().map(|s| s.calls.load(Ordering::SeqCst)).collect();
        rep.count("reruns_with_the_token_still_triggered", 1);
        match catch(|| g.run().map_err(|e| format!("{e}"))) {
            Err(pn) => out.push((format!("{runner}|rerun-after-cancel-panicked|{}", sig_of_msg(&pn)), format!("run() entered again with the token still triggered panicked: {pn}; case {}", c.to_json()))),
            Ok(_) => {
                let after: Vec<u64> = o.stats.iter().map(|s| s.calls.load(Ordering::SeqCst)).collect();
                if after.iter().zip(&before).any(|(a, b)| a > &(b + 1)) {
                    out.push((format!("{runner}|rerun-after-cancel-calls-blocks"), format!("run() entered again with the token still triggered called blocks: calls {before:?} -> {after:?}; case {}", c.to_json())));
                }
            }
        }
    }
    if rep.want_sample() {
        rep.sample(json!({"case": c.to_json(), "cancelled_at": site, "max_calls_after_cancel": maxafter}));
    }
    out
}

// --------------------------------------------------------------------- main

pub fn main(opts: &Opts, prop: &str) -> Report {
    let mut rep = Report::new(prop);
    rep.rule = match prop {
        "C05" => "generated graph programs (chains, tee/merge diamonds, merges with a second source of another length, rate changers, packet stages; CollectSink or a VectorSink watched by a second thread; finite VectorSource of 0..5 capacities; streams of 1,2,4,16 pages or default) run on MTGraph in seeded add orders with seeded PCT-style delays at yield hooks (incl. >100 ms sleeps so wait time-outs fire); termination decided by a logical stuck rule, sink compared with the harness's own sequential reference executor; distinct = (program, interleaving signature of the global produce/consume order)".into(),
        "C06" => "same generator on the single-threaded Graph (a quarter of the programs end in the library's VectorSink while a second thread keeps taking its Hook::data() guard for 20-400 us at a time); add orders forward, reverse and random; after run() returns Ok every block is called again through a hook accessor and no data may move (quiescence probe), then the sink is compared with the reference; early returns are classified by whether the deciding pass contained a data-moving call with a non-Again verdict; distinct = (program, add order)".into(),
        _ => "chains of 1-5 blocks behind finite and infinite sources on both runners; cancellation before run() is entered, from an outside thread after a seeded delay, from the hook callback at the k-th yield event of whichever thread gets there, and from inside a block's work(); a third of the cancellation cases have a Tee whose second output is held, unread, by the harness (an application-side stream end the graph backs up on); a failing block at every position failing on call k in {1,2,5,50}, and graphs of one to three blocks that all fail (no block ends cleanly); distinct = (kind, runner, cancellation site or failure position, k)".into(),
    };
    rep.assume("blocks in generated graphs are deterministic functions of stream state and peer liveness; stuck = no data event and no block exit while every live block was called N more times");
    crate::rec::install(true);

    if let Some(path) = &opts.replay {
        let v: Value = serde_json::from_str(&std::fs::read_to_string(path).expect("replay file")).expect("json");
        rep.eval();
        if prop == "C07" {
            let c = C07Case::from_json(&v["replay"]).expect("case");
            for (class, d) in c07_case(&c, &mut Report::new(prop)) {
                rep.violation(format!("{prop}|{class}"), d, c.to_json());
            }
        } else {
            let c = GCase::from_json(&v["replay"]).expect("case");
            let p = gen_program(&mut Rng::new(c.prog_seed), c.max_ops, true);
            // Free-running threads: the same seed is re-run up to 30 times and
            // the number of recurrences is reported. Graph (C06) is deterministic.
            let tries = if prop == "C05" { 30 } else { 1 };
            let mut hits = 0;
            for _ in 0..tries {
                let mut sub = Report::new(prop);
                let fs = if prop == "C05" { c05_case(&c, &mut sub) } else { c06_case(&c, &mut sub) };
                if !fs.is_empty() {
                    hits += 1;
                }
                for (class, d) in fs {
                    rep.violation(format!("{prop}|{}|{class}", if prop == "C05" { "MTGraph::run" } else { "Graph::run" }), d, c.to_json(&p));
                }
            }
            rep.count("replay_recurrences", hits);
            rep.count("replay_attempts", tries);
        }
        return rep;
    }

    let mut rng = Rng::new(opts.shard_seed() ^ fnv_str(prop));
    let tsan = opts.val("variant").as_deref() == Some("tsan");
    TSAN_MODE.store(tsan, Ordering::SeqCst);
    match prop {
        "C05" => {
            let runs = if tsan { opts.budget(16 * 10, 16 * 300) } else { opts.budget(16 * 120, 16 * 6000) };
            for k in 0..runs {
                let c = GCase {
                    prog_seed: rng.next(),
                    order_seed: rng.next(),
                    order_kind: (k % 3) as usize,
                    delay_seed: if k % 4 == 0 { 0 } else { rng.next() | 1 },
                    max_ops: *rng.pick(&[1usize, 2, 3, 4, 6]),
                };
                rep.eval();
                let p = gen_program(&mut Rng::new(c.prog_seed), c.max_ops, true);
                for (class, d) in c05_case(&c, &mut rep) {
                    rep.violation(format!("C05|MTGraph::run|{class}"), d, c.to_json(&p));
                }
            }
        }
        "C06" => {
            let runs = opts.budget(16 * 400, 16 * 20000);
            for k in 0..runs {
                let c = GCase {
                    prog_seed: rng.next(),
                    order_seed: rng.next(),
                    order_kind: (k % 3) as usize,
                    delay_seed: 0,
                    max_ops: *rng.pick(&[1usize, 2, 3, 4]),
                };
                rep.eval();
                let p = gen_program(&mut Rng::new(c.prog_seed), c.max_ops, true);
                for (class, d) in c06_case(&c, &mut rep) {
                    rep.violation(format!("C06|Graph::run|{class}"), d, c.to_json(&p));
                }
            }
        }
        _ => {
            let runs = opts.budget(16 * 60, 16 * 3000);
            for k in 0..runs {
                let kind = ["cancel-outside", "cancel-at-yield", "cancel-inside", "fail", "fail-then-cancel", "cancel-before-run", "fail-alone"][(k % 7) as usize];
                let chain = rng.range(1, 5);
                let c = C07Case {
                    kind: kind.to_string(),
                    mt: rng.chance(1, 2) || kind == "fail-then-cancel",
                    seed: rng.next(),
                    k: match kind {
                        "fail" | "fail-then-cancel" | "fail-alone" => *rng.pick(&[1u64, 2, 5, 50]),
                        "cancel-inside" => rng.range(1, 30) as u64,
                        "cancel-at-yield" => rng.range(0, 4000) as u64,
                        _ => rng.range(0, 30_000) as u64,
                    },
                    pos: rng.below(chain),
                    chain,
                    infinite: rng.chance(2, 3) || kind != "fail",
                    dangling: kind.starts_with("cancel-") && kind != "cancel-inside" && rng.chance(1, 3),
                };
                rep.eval();
                rep.distinct(fnv_str(&format!("{}|{}|{}|{}|{}", c.kind, c.mt, c.pos, c.chain, c.k)));
                for (class, d) in c07_case(&c, &mut rep) {
                    rep.violation(format!("C07|{class}"), d, c.to_json());
                }
            }
        }
    }
    rep
}
