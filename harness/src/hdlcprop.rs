//! C13: HDLC deframer - every valid frame is recovered, nothing invalid is emitted.
use crate::drip::*;
use crate::duts::{gen_bits, gen_bytes};
use crate::hdlc::*;
use crate::rec;
use crate::util::*;
use rustradio::block::Block;
use rustradio::blocks::HdlcDeframer;
use rustradio::stream::new_stream;
use serde_json::{Value, json};

#[derive(Clone, Debug)]
pub struct Cfg {
    pub min: usize,
    pub max: usize,
    pub checksum: bool,
    pub fix_bits: bool,
}

struct Tx {
    bits: Vec<u8>,
    /// (payload, optional): optional = length exactly at the upper bound
    expected: Vec<(Vec<u8>, bool)>,
    frames: usize,
    descr: Vec<String>,
}

fn gen_payload(rng: &mut Rng, len: usize) -> Vec<u8> {
    match rng.below(4) {
        0 => {
            // stuffing-heavy: runs of 0xFF / 0x7E / 0x3F
            let mut v = Vec::with_capacity(len);
            while v.len() < len {
                let b = *rng.pick(&[0xffu8, 0x7e, 0x3f, 0xfc, 0x1f, 0xf8]);
                for _ in 0..rng.range(1, 6) {
                    if v.len() < len {
                        v.push(b);
                    }
                }
            }
            v
        }
        _ => gen_bytes(rng, len),
    }
}

fn gen_tx(rng: &mut Rng, cfg: &Cfg) -> Tx {
    let extra = if cfg.checksum { 2 } else { 0 };
    let mut bits;
    // noise preamble that contains nothing the reference deframer would accept
    loop {
        let n = rng.range(0, 300);
        bits = gen_bits(rng, n);
        if !cfg.checksum || cfg.fix_bits {
            // Without a checksum every octet-aligned run between two flag patterns is a
            // valid frame by definition, and with single-bit fixing a junk frame is
            // accepted with probability ~ 8*len/65536, which thousands of transmissions
            // do hit. In those settings the noise must not contain flag or abort
            // patterns at all: break every run of five ones. (Noise with flag patterns
            // is exercised with checksum on and fixing off.)
            let mut ones = 0;
            for b in bits.iter_mut() {
                if *b == 1 {
                    ones += 1;
                    if ones == 5 {
                        *b = 0;
                        ones = 0;
                    }
                } else {
                    ones = 0;
                }
            }
        }
        let mut probe = bits.clone();
        probe.push(0); // exactly what is transmitted after the noise
        probe.extend(FLAG);
        probe.extend(FLAG);
        let junk = reference_deframe(&probe);
        let bad = junk.iter().any(|(f, _)| {
            if cfg.checksum {
                f.len() >= 2 && crc16_x25(&f[..f.len() - 2]).to_le_bytes() == f[f.len() - 2..]
            } else {
                true
            }
        });
        // the noise must not end in a partial flag that merges with ours
        if !bad {
            break;
        }
    }
    if rng.chance(1, 4) {
        // An idle (mark) line instead of noise: 0..16 one-bits and then the opening
        // flag(s) directly; a single opening flag is enough. Nothing can be framed
        // inside it (there is no flag before the first one).
        bits = vec![1u8; rng.range(0, 16)];
        for _ in 0..rng.range(1, 3) {
            bits.extend(FLAG);
        }
    } else {
        // a zero before our flags so that trailing ones of the noise cannot extend into them
        bits.push(0);
        for _ in 0..rng.range(2, 4) {
            bits.extend(FLAG);
        }
    }
    let nframes = rng.range(1, 8);
    let mut expected = Vec::new();
    let mut descr = Vec::new();
    for _ in 0..nframes {
        let plen = match rng.below(10) {
            0 => 0,
            1 => 1,
            2 => 2,
            3 => cfg.min.saturating_sub(extra),
            4 => cfg.min.saturating_sub(extra + 1),
            5 => cfg.max.saturating_sub(extra + 1),
            6 => cfg.max.saturating_sub(extra),
            7 => cfg.max + 2,
            _ => rng.range(0, std::cmp::min(cfg.max + 2, 120)),
        };
        let payload = gen_payload(rng, plen);
        let l = plen + extra;
        // A well-formed frame whose CRC field is wrong by one bit: must be
        // rejected (or repaired with fix-bits) and must not disturb the next
        // frame, even when that frame's only opening flag is this one's closing flag.
        let bad_crc = cfg.checksum && l >= cfg.min && l < cfg.max && l >= 2 && rng.chance(1, 4);
        if bad_crc {
            let mut bytes = payload.clone();
            let c = crc16_x25(&payload) ^ (1u16 << rng.below(16));
            bytes.extend(c.to_le_bytes());
            bits.extend(stuff(&bytes_to_bits_lsb(&bytes)));
        } else {
            bits.extend(body_bits(&payload, cfg.checksum));
        }
        // closing flag(s)
        let oversize = l >= cfg.max;
        let nflags = if oversize || rng.chance(1, 2) { rng.range(2, 3) } else { 1 };
        for _ in 0..nflags {
            bits.extend(FLAG);
        }
        // Sometimes the line goes idle (mark: 7-20 one-bits, which is also the abort
        // sequence) after the closing flag and the next frame brings its own flags.
        let idle_after = rng.chance(1, 6);
        if idle_after {
            for _ in 0..rng.range(7, 20) {
                bits.push(1);
            }
            for _ in 0..rng.range(1, 2) {
                bits.extend(FLAG);
            }
        }
        let within = l >= cfg.min && l < cfg.max;
        let at_upper = l == cfg.max && l >= cfg.min;
        // a frame too short to hold a CRC can never be valid with checksum on
        let crc_possible = !cfg.checksum || l >= 2;
        descr.push(format!("L={l}{}{}", if nflags == 1 && !idle_after { " shared-flag" } else { "" }, if bad_crc { " bad-crc" } else if idle_after { " then-idle-line" } else { "" }));
        if bad_crc {
            // never demanded; with fix-bits a repair to the original is allowed
            if cfg.fix_bits {
                expected.push((payload, true));
            }
        } else if within && crc_possible {
            expected.push((payload, false));
        } else if at_upper && crc_possible {
            expected.push((payload, true));
        }
    }
    for _ in 0..rng.range(0, 20) {
        bits.push(0);
    }
    Tx { bits, expected, frames: nframes, descr }
}

/// Feed all bits in one go through a 64 KiB..1 MiB stream; returns packets or a panic message.
fn deframe_oneshot(bits: &[u8], cfg: &Cfg) -> Result<Vec<Vec<u8>>, String> {
    rec::stream_size(((bits.len() + 4096) / 4096 + 1) * 4096);
    let (w, r) = new_stream::<u8>();
    rec::stream_size(0);
    let (mut b, out) = HdlcDeframer::new(r, cfg.min, cfg.max);
    b.set_checksum(cfg.checksum);
    b.set_fix_bits(cfg.fix_bits);
    {
        let mut wb = w.write_buf().map_err(|e| format!("{e}"))?;
        wb.slice()[..bits.len()].copy_from_slice(bits);
        wb.produce(bits.len(), &[]);
    }
    let res = catch(|| {
        for _ in 0..4 {
            if b.work().is_err() {
                return Err("work() returned Err".to_string());
            }
        }
        Ok(())
    });
    match res {
        Err(p) => return Err(format!("panic: {p}")),
        Ok(Err(e)) => return Err(e),
        Ok(Ok(())) => {}
    }
    let mut v = Vec::new();
    while let Some((p, _)) = out.pop() {
        v.push(p);
    }
    Ok(v)
}

/// Chunked delivery through the drip-feed engine on a one-page stream.
fn deframe_chunked(bits: &[u8], cfg: &Cfg, seed: u64) -> Result<Vec<Vec<u8>>, String> {
    rec::stream_size(4096);
    let (inp, r) = CopyIn::new(bits.to_vec());
    let (mut b, o) = HdlcDeframer::new(r, cfg.min, cfg.max);
    rec::stream_size(0);
    b.set_checksum(cfg.checksum);
    b.set_fix_bits(cfg.fix_bits);
    let dut = Dut {
        name: "HdlcDeframer".into(),
        params: json!({}),
        block: Box::new(b),
        ins: vec![Box::new(inp)],
        outs: vec![Box::new(PktOut::new(o))],
        keeps_history: 0,
        cleanup: None,
    };
    let mut r = Runner::new(dut);
    let mut rng = Rng::new(seed);
    let mut steps = Vec::new();
    run_schedule(&mut r, &mut rng, &mut |_, _, _| {}, &mut |_| {}, &mut steps);
    if r.dead {
        return Err(format!("died: {:?}", r.last_calls.last().and_then(|c| c.msg.clone())));
    }
    match r.outputs().pop() {
        Some(Data::PU8(v)) => Ok(v),
        _ => Err("no output".into()),
    }
}

fn compare(got: &[Vec<u8>], tx: &Tx, cfg: &Cfg) -> Option<(String, String)> {
    // With min_size 0 and no checksum, the idle fill between adjacent flags is
    // a zero-length frame within the configured bounds: ignore empty packets.
    let got: Vec<&Vec<u8>> = got.iter().filter(|p| !(p.is_empty() && cfg.min == 0 && !cfg.checksum)).collect();
    // Expected entries are required or optional (length exactly at the upper
    // bound; a bad-CRC frame that fix-bits may repair). `got` must be the
    // required ones in order, with any of the optional ones interleaved in place.
    let exp: Vec<(&Vec<u8>, bool)> = tx
        .expected
        .iter()
        .filter(|(w, _)| !(w.is_empty() && cfg.min == 0 && !cfg.checksum))
        .map(|(w, o)| (w, *o))
        .collect();
    fn matches(got: &[&Vec<u8>], exp: &[(&Vec<u8>, bool)]) -> bool {
        match exp.split_first() {
            None => got.is_empty(),
            Some(((w, optional), rest)) => {
                let take = !got.is_empty() && got[0] == *w && matches(&got[1..], rest);
                take || (*optional && matches(got, rest))
            }
        }
    }
    if !matches(&got, &exp) {
        let required: Vec<&Vec<u8>> = exp.iter().filter(|e| !e.1).map(|e| e.0).collect();
        let missing = required.iter().find(|w| !got.contains(w));
        let extra = got.iter().find(|g| !exp.iter().any(|e| e.0 == **g));
        let class = if let Some(_) = extra {
            "unexpected-frame-emitted"
        } else if missing.is_some() {
            "valid-frame-not-recovered"
        } else {
            "frame-out-of-order-or-duplicated"
        };
        return Some((
            class.into(),
            format!(
                "delivered {} packets (lengths {:?}), expected (length, optional) {:?}; frames sent: {:?}",
                got.len(),
                got.iter().map(|g| g.len()).collect::<Vec<_>>(),
                exp.iter().map(|e| (e.0.len(), e.1)).collect::<Vec<_>>(),
                tx.descr
            ),
        ));
    }
    None
}

fn hamming(a: &[u8], b: &[u8]) -> u32 {
    a.iter().zip(b).map(|(x, y)| (x ^ y).count_ones()).sum()
}

/// Is an emitted packet justified by what is actually on the (corrupted) line?
fn justified(p: &[u8], raw: &[(Vec<u8>, usize)], fix: bool) -> bool {
    for (f, _) in raw {
        if f.len() < 2 || f.len() - 2 != p.len() {
            continue;
        }
        let (data, crc) = f.split_at(f.len() - 2);
        let got = u16::from_le_bytes([crc[0], crc[1]]);
        if data == p && crc16_x25(p) == got {
            return true;
        }
        if fix && hamming(data, p) <= 1 && crc16_x25(p) == got {
            return true;
        }
    }
    false
}

pub fn main(opts: &Opts) -> Report {
    let mut rep = Report::new("C13");
    rep.rule = "clean part: generated bit streams (noise preamble re-drawn until the harness's own reference deframer finds nothing valid in it and 2+ flags, or an idle line of 0-16 one-bits and 1+ flags; 1-8 frames with payload lengths around 0,1,2,min,max and random, random and stuffing-heavy contents, shared or separate flags) from an independent transmitter model (bitwise CRC-16/X.25, LSB-first, zero insertion) x (min,max) settings incl. 0,1,2 x checksum on/off x fix-bits on/off, delivered one-shot and under drip-feed chunking: the packets must be exactly the frames with min <= L < max (L = max accepted either way), once, in order. Corrupted part: every single-bit flip position of a framed packet and sampled double flips: no panic, and every emitted packet is the original payload or is justified by a raw frame on the corrupted line whose CRC verifies (or is one repaired bit away with fix-bits). distinct = (settings, frame length pattern) for clean, flip position for corrupted".into();
    rep.assume("two flags sharing their boundary zero (011111101111110) are not generated as a separator: the block's documentation does not promise that form");
    rec::install(true);
    let mut rng = Rng::new(opts.shard_seed() ^ 0xC13);
    let mut forced: Option<(Cfg, u64)> = None;
    if let Some(path) = &opts.replay {
        let v: Value = serde_json::from_str(&std::fs::read_to_string(path).expect("replay file")).expect("json");
        let r = &v["replay"];
        if let Some(s) = r["tx_seed"].as_str() {
            forced = Some((
                Cfg {
                    min: r["min"].as_u64().unwrap_or(2) as usize,
                    max: r["max"].as_u64().unwrap_or(50) as usize,
                    checksum: r["checksum"].as_bool().unwrap_or(true),
                    fix_bits: r["fix_bits"].as_bool().unwrap_or(false),
                },
                s.parse().unwrap(),
            ));
        }
    }
    let settings: Vec<(usize, usize)> = vec![(0, 10), (1, 20), (2, 50), (10, 1500), (10, 40), (0, 3), (2, 2), (5, 200)];
    let txs = if opts.replay.is_some() { 1 } else { opts.budget(16 * 2000, 16 * 60000) };
    for k in 0..txs {
        let (min, max) = *rng.pick(&settings);
        let mut cfg = Cfg { min, max, checksum: k % 3 != 0, fix_bits: k % 4 == 1 };
        let mut tx_seed = rng.next();
        if let Some((c, s)) = &forced {
            cfg = c.clone();
            tx_seed = *s;
        }
        let (min, max) = (cfg.min, cfg.max);
        let mut trng = Rng::new(tx_seed);
        let tx = gen_tx(&mut trng, &cfg);
        rep.eval();
        rep.count("clean_transmissions", 1);
        rep.count("frames_sent", tx.frames as u64);
        rep.count("frames_expected", tx.expected.iter().filter(|e| !e.1).count() as u64);
        rep.set("settings", format!("min{min} max{max}"));
        rep.distinct(fnv_str(&format!("{:?}|{:?}", cfg, tx.descr)));
        let replay = json!({"part": "clean", "tx_seed": tx_seed.to_string(), "min": cfg.min, "max": cfg.max, "checksum": cfg.checksum, "fix_bits": cfg.fix_bits});
        if std::env::var("C13DBG").is_ok() {
            eprintln!("bits: {}", tx.bits.iter().map(|b| char::from(b'0' + b)).collect::<String>());
            eprintln!("expected: {:?}", tx.expected);
            eprintln!("reference: {:?}", reference_deframe(&tx.bits));
        }
        if rep.want_sample() {
            rep.sample(json!({"settings": format!("{cfg:?}"), "frames": tx.descr, "bits": tx.bits.len(), "tx_seed": tx_seed.to_string()}));
        }
        for (which, res) in [("one-shot", deframe_oneshot(&tx.bits, &cfg)), ("chunked", deframe_chunked(&tx.bits, &cfg, tx_seed ^ 5))] {
            match res {
                Err(e) => {
                    rep.violation(format!("C13|clean|{which}|panic-or-error|{}", sig_of_msg(&e)), format!("{e}; settings {cfg:?}; frames {:?}", tx.descr), replay.clone());
                }
                Ok(got) => {
                    rep.count("frames_delivered", got.len() as u64);
                    if let Some((class, d)) = compare(&got, &tx, &cfg) {
                        rep.violation(format!("C13|clean|{class}"), format!("{d} ({which} delivery); settings {cfg:?}"), replay.clone());
                    }
                }
            }
        }
    }
    // Corrupted part.
    let frames = if opts.replay.is_some() { 0 } else { opts.budget(16 * 20, 16 * 400) };
    for k in 0..frames {
        let plen = rng.range(3, 40);
        let payload = gen_payload(&mut rng, plen);
        let mut bits = vec![0u8; 3];
        bits.extend(FLAG);
        bits.extend(FLAG);
        let start = bits.len() - 8;
        bits.extend(body_bits(&payload, true));
        bits.extend(FLAG);
        let end = bits.len();
        bits.extend(FLAG);
        bits.extend([0, 0, 0]);
        let fix = k % 2 == 0;
        let cfg = Cfg { min: 2, max: 200, checksum: true, fix_bits: fix };
        let mut positions: Vec<(usize, Option<usize>)> = (start..end).map(|p| (p, None)).collect();
        let doubles = if opts.thorough() { 2000 } else { 300 };
        for _ in 0..doubles {
            let a = rng.range(start, end - 1);
            let mut b = rng.range(start, end - 1);
            if rng.chance(1, 2) {
                b = std::cmp::min(end - 1, a + rng.range(1, 12));
            }
            if a != b {
                positions.push((a, Some(b)));
            }
        }
        for (a, b) in positions {
            let mut c = bits.clone();
            c[a] ^= 1;
            if let Some(b) = b {
                c[b] ^= 1;
            }
            rep.eval();
            rep.count(if b.is_some() { "double_flips" } else { "single_flips" }, 1);
            rep.distinct(fnv_str(&format!("{plen}|{}|{:?}", a - start, b.map(|x| x as isize - a as isize))));
            let replay = json!({"part": "corrupted", "payload": payload, "flip": [a - start, b.map(|x| x - start)], "fix_bits": fix});
            match deframe_oneshot(&c, &cfg) {
                Err(e) => rep.violation(format!("C13|corrupted|panic-or-error|{}", sig_of_msg(&e)), format!("{e}; payload {} bytes, flips at {a},{b:?}", plen), replay),
                Ok(got) => {
                    // Raw frames on the corrupted line as the block itself frames them
                    // (a second deframer with checksum checking off). The harness's own
                    // reference deframer disagrees with the block on corner cases that two
                    // flips can create (flags sharing a zero, aborts), which is not what
                    // this part is about; framing is judged by the clean part.
                    let raw_cfg = Cfg { min: 2, max: cfg.max, checksum: false, fix_bits: false };
                    let raw: Vec<(Vec<u8>, usize)> = match deframe_oneshot(&c, &raw_cfg) {
                        Ok(v) => v.into_iter().map(|f| (f, 0)).collect(),
                        Err(_) => reference_deframe(&c),
                    };
                    for p in &got {
                        if *p == payload {
                            rep.count(if fix { "corrupted_repaired_to_original" } else { "corrupted_original_delivered" }, 1);
                            // without fix-bits the original can only come out if the flips missed the frame content
                            if !fix && !justified(p, &raw, false) {
                                rep.violation("C13|corrupted|accepted-frame-with-bad-crc", format!("payload delivered although the frame on the line does not verify; flips {a},{b:?}"), replay.clone());
                            }
                        } else if justified(p, &raw, fix) {
                            rep.count("corrupted_other_valid_frame", 1);
                        } else {
                            rep.violation("C13|corrupted|emitted-frame-whose-crc-does-not-verify", format!("emitted {} bytes that neither equal the original payload nor match a CRC-valid frame on the line; flips at {a},{b:?}, fix_bits {fix}", p.len()), replay.clone());
                        }
                    }
                    if got.is_empty() {
                        rep.count("corrupted_rejected", 1);
                    }
                }
            }
        }
    }
    rep
}
