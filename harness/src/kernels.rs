//! C11: DSP kernels agree with their mathematical definitions (f64 reference
//! implementations, derived rounding bounds) and with each other.
use crate::drip::*;
use crate::duts::{gen_c32, gen_f32};
use crate::rec;
use crate::util::*;
use rustradio::blocks::*;
use rustradio::fir::Fir;
use rustradio::iir_filter::{ClampedFilter, Filter, IirFilter};
use rustradio::window::WindowType;
use serde_json::{Value, json};

const U: f64 = 5.960464477539063e-8; // f32 unit roundoff 2^-24

fn build_kind() -> &'static str {
    if cfg!(all(target_feature = "avx", target_feature = "sse3")) {
        "avx"
    } else if cfg!(feature = "simd") {
        "simd"
    } else {
        "scalar"
    }
}

/// Run a one-input one-output DUT both one-shot and drip-fed; return both outputs.
fn run_both<I: Samp, O: Samp>(
    data: &[I],
    stream_bytes: usize,
    seed: u64,
    mk: &dyn Fn(rustradio::stream::ReadStream<I>) -> (Box<dyn rustradio::block::Block>, rustradio::stream::ReadStream<O>),
) -> Result<(Vec<O>, Vec<O>), String> {
    let mut outs = Vec::new();
    for sched in [false, true] {
        rec::stream_size(if sched { stream_bytes } else { 0 });
        let (inp, r) = CopyIn::new(data.to_vec());
        let (b, o) = mk(r);
        rec::stream_size(0);
        let dut = Dut {
            name: "kernel".into(),
            params: json!({}),
            block: b,
            ins: vec![Box::new(inp)],
            outs: vec![Box::new(CopyOut::new(o))],
            keeps_history: 0,
            cleanup: None,
        };
        let mut r = Runner::new(dut);
        if sched {
            let mut rng = Rng::new(seed);
            let mut steps = Vec::new();
            run_schedule(&mut r, &mut rng, &mut |_, _, _| {}, &mut |_| {}, &mut steps);
        } else {
            run_reference(&mut r);
        }
        if r.dead {
            return Err(format!("block died: {:?}", r.last_calls.last().and_then(|c| c.msg.clone())));
        }
        outs.push(O::unwrap(&r.outputs()[0]));
    }
    let b = outs.pop().unwrap();
    let a = outs.pop().unwrap();
    Ok((a, b))
}

struct Ctxt<'a> {
    rep: &'a mut Report,
    fails: Vec<(String, String, Value)>,
}
impl Ctxt<'_> {
    fn ratio(&mut self, kernel: &str, err: f64, bound: f64) {
        let r = if bound > 0.0 { err / bound } else if err == 0.0 { 0.0 } else { f64::INFINITY };
        if r > 1e5 && std::env::var("C11DBG").is_ok() { eprintln!("ratio {kernel} err {err:e} bound {bound:e}"); }
        // store max ratio in millionths
        self.rep.max(&format!("err_over_bound_ppm:{kernel}"), (r * 1e6).min(1e12) as u64);
    }
    fn fail(&mut self, sig: &str, detail: String, replay: Value) {
        if self.fails.iter().filter(|f| f.0 == sig).count() < 3 {
            self.fails.push((sig.to_string(), detail, replay));
        }
    }
}

// ---------------------------------------------------------------- FIR block

/// `Fir::filter_n` / `filter_n_inplace` (the multi-output helpers): one output per
/// window position 0, deci, 2*deci, ... that still holds `ntaps` samples, each equal
/// to `filter()` at that position.
fn filter_n_case(cx: &mut Ctxt, rng: &mut Rng) {
    let ntaps = rng.range(1, 12);
    let deci = rng.range(1, 8);
    let len = ntaps + rng.range(0, 40);
    let taps = gen_f32(rng, ntaps);
    let data = gen_f32(rng, len);
    let fir = Fir::new(&taps);
    let replay = json!({"part": "filter_n", "ntaps": ntaps, "deci": deci, "len": len});
    let want: Vec<f32> = (0..=len - ntaps).step_by(deci).map(|i| fir.filter(&data[i..])).collect();
    let got = match catch(|| fir.filter_n(&data, deci)) {
        Ok(g) => g,
        Err(p) => return cx.fail("C11|Fir::filter_n|panic", format!("{p}; ntaps {ntaps} deci {deci} len {len}"), replay),
    };
    cx.rep.count("filter_n_outputs_checked", got.len() as u64);
    if got.len() != want.len() {
        return cx.fail("C11|Fir::filter_n|output-count", format!("{} outputs, {} window positions (ntaps {ntaps}, deci {deci}, len {len})", got.len(), want.len()), replay);
    }
    if got.iter().zip(&want).any(|(a, b)| a.to_bits() != b.to_bits()) {
        return cx.fail("C11|Fir::filter_n|differs-from-filter", format!("ntaps {ntaps} deci {deci} len {len}"), replay);
    }
    let mut out = vec![0f32; want.len()];
    if let Err(p) = catch(|| fir.filter_n_inplace(&data, deci, &mut out)) {
        return cx.fail("C11|Fir::filter_n_inplace|panic", format!("{p}; ntaps {ntaps} deci {deci} len {len}"), replay);
    }
    if out.iter().zip(&want).any(|(a, b)| a.to_bits() != b.to_bits()) {
        cx.fail("C11|Fir::filter_n_inplace|differs-from-filter", format!("ntaps {ntaps} deci {deci} len {len}"), replay);
    }
}

fn fir_case(cx: &mut Ctxt, rng: &mut Rng) {
    let ntaps = match rng.below(4) {
        0 => rng.range(1, 4),
        1 => rng.range(1, 200),
        _ => rng.range(1, 60),
    };
    let deci = if rng.chance(1, 2) { 1 } else { rng.range(1, 8) };
    let n = rng.range(0, 3000);
    let complex = rng.chance(1, 3);
    let seed = rng.next();
    let kind = rng.below(4);
    let replay = json!({"part": "fir", "ntaps": ntaps, "deci": deci, "n": n, "complex": complex, "seed": seed.to_string(), "input": kind});
    cx.rep.set("fir_ntaps", ntaps.to_string());
    cx.rep.set("fir_deci", deci.to_string());
    let expected_count = if n + 1 >= ntaps + deci { (n + 1 - ntaps) / deci } else { 0 };
    if !complex {
        let taps = gen_f32(rng, ntaps);
        let data = gen_input(rng, n, kind);
        let t2 = taps.clone();
        let r = run_both::<f32, f32>(&data, 4096, seed, &move |r| {
            let (b, o) = FirFilterBuilder::new(&t2).deci(deci).build(r);
            (Box::new(b), o)
        });
        let (one, chunked) = match r {
            Ok(x) => x,
            Err(e) => return cx.fail("C11|FirFilter|died", e, replay),
        };
        if crate::ring::as_bytes(&one) != crate::ring::as_bytes(&chunked) {
            return cx.fail("C11|FirFilter|chunking-changes-output", format!("one-shot {} vs chunked {} outputs differ", one.len(), chunked.len()), replay);
        }
        if one.len() != expected_count {
            return cx.fail("C11|FirFilter|output-count", format!("{} outputs, definition gives {expected_count} (n={n}, ntaps={ntaps}, deci={deci})", one.len()), replay);
        }
        for (j, y) in one.iter().enumerate() {
            let mut acc = 0f64;
            let mut mag = 0f64;
            for i in 0..ntaps {
                let p = data[j * deci + i] as f64 * taps[ntaps - 1 - i] as f64;
                acc += p;
                mag += p.abs();
            }
            let bound = 2.0 * ntaps as f64 * U * mag + 1e-40;
            let err = (*y as f64 - acc).abs();
            cx.ratio("FirFilter<f32>", err, bound);
            if !(err <= bound) {
                return cx.fail("C11|FirFilter|differs-from-sliding-dot-product", format!("output {j}: block {y}, definition {acc}, |err| {err:e} > bound {bound:e} (ntaps {ntaps}, deci {deci})"), replay);
            }
        }
        cx.rep.count("fir_outputs_checked", one.len() as u64);
    } else {
        let taps = gen_c32(rng, ntaps);
        let data = gen_c32(rng, n);
        let t2 = taps.clone();
        let r = run_both::<C32, C32>(&data, 4096, seed, &move |r| {
            let (b, o) = FirFilterBuilder::new(&t2).deci(deci).build(r);
            (Box::new(b), o)
        });
        let (one, chunked) = match r {
            Ok(x) => x,
            Err(e) => return cx.fail("C11|FirFilter|died", e, replay),
        };
        if crate::ring::as_bytes(&one) != crate::ring::as_bytes(&chunked) {
            return cx.fail("C11|FirFilter|chunking-changes-output", format!("one-shot {} vs chunked {} outputs differ", one.len(), chunked.len()), replay);
        }
        if one.len() != expected_count {
            return cx.fail("C11|FirFilter|output-count", format!("{} outputs, definition gives {expected_count}", one.len()), replay);
        }
        for (j, y) in one.iter().enumerate() {
            let (mut re, mut im, mut mag) = (0f64, 0f64, 0f64);
            for i in 0..ntaps {
                let a = data[j * deci + i];
                let b = taps[ntaps - 1 - i];
                re += a.re as f64 * b.re as f64 - a.im as f64 * b.im as f64;
                im += a.re as f64 * b.im as f64 + a.im as f64 * b.re as f64;
                mag += (a.re.abs() as f64 + a.im.abs() as f64) * (b.re.abs() as f64 + b.im.abs() as f64);
            }
            let bound = 4.0 * ntaps as f64 * U * mag + 1e-40;
            let err = ((y.re as f64 - re).abs()).max((y.im as f64 - im).abs());
            cx.ratio("FirFilter<Complex>", err, bound);
            if !(err <= bound) {
                return cx.fail("C11|FirFilter|differs-from-sliding-dot-product", format!("complex output {j}: |err| {err:e} > bound {bound:e}"), replay);
            }
        }
        cx.rep.count("fir_outputs_checked", one.len() as u64);
    }
}

fn gen_input(rng: &mut Rng, n: usize, kind: usize) -> Vec<f32> {
    match kind {
        0 => gen_f32(rng, n),
        1 => (0..n).map(|i| if i == n / 3 { 1.0 } else { 0.0 }).collect(), // impulse
        2 => (0..n).map(|i| if i >= n / 4 { 1.0 } else { 0.0 }).collect(), // step
        _ => {
            let w = rng.f32_unit().abs() * 3.0;
            (0..n).map(|i| (i as f32 * w).sin()).collect()
        }
    }
}

// ---------------------------------------------------------------- FFT filter

fn fft_case(cx: &mut Ctxt, rng: &mut Rng) {
    let ntaps = rng.range(1, 120);
    let mut fftn = 1;
    while fftn < ntaps {
        fftn <<= 1;
    }
    let fft_size = 2 * fftn;
    let nsamples = fft_size - ntaps;
    let n = rng.range(0, 2500);
    let float = rng.chance(1, 2);
    let seed = rng.next();
    let kind = rng.below(4);
    let replay = json!({"part": "fft", "ntaps": ntaps, "n": n, "float": float, "seed": seed.to_string(), "input": kind});
    cx.rep.set("fft_ntaps", ntaps.to_string());
    // stream must hold nsamples complex (and floats)
    let stream_bytes = std::cmp::max(4096, (nsamples * 8).next_multiple_of(4096));
    let expected_count = (n / nsamples) * nsamples;
    let log2n = (fft_size as f64).log2();
    if float {
        let taps = gen_f32(rng, ntaps);
        let data = gen_input(rng, n, kind);
        let t2 = taps.clone();
        let r = run_both::<f32, f32>(&data, stream_bytes, seed, &move |r| {
            let (b, o) = FftFilterFloat::new(r, &t2);
            (Box::new(b), o)
        });
        let (one, chunked) = match r {
            Ok(x) => x,
            Err(e) => return cx.fail("C11|FftFilterFloat|died", e, replay),
        };
        if crate::ring::as_bytes(&one) != crate::ring::as_bytes(&chunked) {
            return cx.fail("C11|FftFilterFloat|chunking-changes-output", format!("one-shot {} vs chunked {} outputs differ", one.len(), chunked.len()), replay);
        }
        if one.len() != expected_count {
            return cx.fail("C11|FftFilterFloat|output-count", format!("{} outputs, expected {expected_count} (whole blocks of {nsamples})", one.len()), replay);
        }
        let hnorm = taps.iter().map(|t| (*t as f64).powi(2)).sum::<f64>().sqrt();
        for (i, y) in one.iter().enumerate() {
            let mut acc = 0f64;
            for t in 0..ntaps {
                if i >= t {
                    acc += taps[t] as f64 * data[i - t] as f64;
                }
            }
            let blk = i / nsamples;
            // the overlap tail carries rounding noise of the whole previous block
            let lo = blk.saturating_sub(1) * nsamples;
            let hi = std::cmp::min(n, (blk + 1) * nsamples);
            let xnorm = data[lo..hi].iter().map(|x| (*x as f64).powi(2)).sum::<f64>().sqrt();
            let bound = 16.0 * 2.0 * U * log2n * xnorm * hnorm + 1e-30;
            let err = (*y as f64 - acc).abs();
            cx.ratio("FftFilterFloat", err, bound);
            if !(err <= bound) {
                return cx.fail("C11|FftFilterFloat|differs-from-linear-convolution", format!("output {i}: block {y}, convolution {acc}, |err| {err:e} > bound {bound:e} (ntaps {ntaps})"), replay);
            }
        }
        cx.rep.count("fft_outputs_checked", one.len() as u64);
        // FFT out[n] = FIR out[n-(ntaps-1)]
        let t3 = taps.clone();
        if let Ok((fir, _)) = run_both::<f32, f32>(&data, 4096, seed, &move |r| {
            let (b, o) = FirFilter::new(r, &t3);
            (Box::new(b), o)
        }) {
            for (k, f) in fir.iter().enumerate() {
                let i = k + ntaps - 1;
                if i < one.len() {
                    let mag: f64 = (0..ntaps).map(|t| (taps[t] as f64 * data[i - t] as f64).abs()).sum();
                    let bound = 16.0 * 2.0 * U * log2n * (data.iter().map(|x| (*x as f64).powi(2)).sum::<f64>().sqrt()) * hnorm + 2.0 * ntaps as f64 * U * mag + 1e-30;
                    let err = (*f as f64 - one[i] as f64).abs();
                    if !(err <= bound) {
                        return cx.fail("C11|FftFilterFloat|fft-vs-fir-delay-relation", format!("FFT out[{i}]={} vs FIR out[{k}]={f}: |diff| {err:e} > {bound:e}", one[i]), replay);
                    }
                    cx.rep.count("fft_vs_fir_pairs", 1);
                }
            }
        }
    } else {
        let taps = gen_c32(rng, ntaps);
        let data = gen_c32(rng, n);
        let t2 = taps.clone();
        let r = run_both::<C32, C32>(&data, stream_bytes, seed, &move |r| {
            let (b, o) = FftFilter::new(r, &t2);
            (Box::new(b), o)
        });
        let (one, chunked) = match r {
            Ok(x) => x,
            Err(e) => return cx.fail("C11|FftFilter|died", e, replay),
        };
        if crate::ring::as_bytes(&one) != crate::ring::as_bytes(&chunked) {
            return cx.fail("C11|FftFilter|chunking-changes-output", format!("one-shot {} vs chunked {} outputs differ", one.len(), chunked.len()), replay);
        }
        if one.len() != expected_count {
            return cx.fail("C11|FftFilter|output-count", format!("{} outputs, expected {expected_count}", one.len()), replay);
        }
        let hnorm = taps.iter().map(|t| t.norm_sqr() as f64).sum::<f64>().sqrt();
        for (i, y) in one.iter().enumerate() {
            let (mut re, mut im) = (0f64, 0f64);
            for t in 0..ntaps {
                if i >= t {
                    let (a, b) = (taps[t], data[i - t]);
                    re += a.re as f64 * b.re as f64 - a.im as f64 * b.im as f64;
                    im += a.re as f64 * b.im as f64 + a.im as f64 * b.re as f64;
                }
            }
            let blk = i / nsamples;
            // the overlap tail carries rounding noise of the whole previous block
            let lo = blk.saturating_sub(1) * nsamples;
            let hi = std::cmp::min(n, (blk + 1) * nsamples);
            let xnorm = data[lo..hi].iter().map(|x| x.norm_sqr() as f64).sum::<f64>().sqrt();
            let bound = 16.0 * 2.0 * U * log2n * xnorm * hnorm + 1e-30;
            let err = ((y.re as f64 - re).powi(2) + (y.im as f64 - im).powi(2)).sqrt();
            cx.ratio("FftFilter", err, bound);
            if !(err <= bound) {
                return cx.fail("C11|FftFilter|differs-from-linear-convolution", format!("output {i}: |err| {err:e} > bound {bound:e} (ntaps {ntaps})"), replay);
            }
        }
        cx.rep.count("fft_outputs_checked", one.len() as u64);
    }
}

// ------------------------------------------------------- Fir::filter_float

fn kernel_case(cx: &mut Ctxt, rng: &mut Rng, len: usize) {
    let taps = gen_f32(rng, len);
    let input: Vec<f32> = match rng.below(3) {
        0 => gen_f32(rng, len),
        1 => (0..len).map(|i| (i as f32 * 0.37).cos() * 1e3).collect(),
        _ => (0..len).map(|_| rng.f32_unit() * 1e-3).collect(),
    };
    let replay = json!({"part": "kernel", "len": len, "build": build_kind()});
    let f = Fir::new(&taps);
    let fast = match catch(|| f.filter_float(&input)) {
        Ok(v) => v,
        Err(p) => return cx.fail(&format!("C11|Fir::filter_float({})|panic", build_kind()), p, replay),
    };
    let plain = f.filter(&input);
    let mut acc = 0f64;
    let mut mag = 0f64;
    for i in 0..len {
        let p = input[i] as f64 * taps[len - 1 - i] as f64;
        acc += p;
        mag += p.abs();
    }
    let bound = 2.0 * (len.max(1)) as f64 * U * mag + 1e-40;
    for (name, v) in [("filter_float", fast), ("filter", plain)] {
        let err = (v as f64 - acc).abs();
        cx.ratio(&format!("Fir::{name}({})", build_kind()), err, bound);
        if !(err <= bound) {
            return cx.fail(
                &format!("C11|Fir::{name}({})|differs-from-dot-product", build_kind()),
                format!("len {len}: kernel {v}, f64 dot product {acc}, |err| {err:e} > bound {bound:e}"),
                replay,
            );
        }
    }
    cx.rep.count("kernel_dot_products", 1);
    cx.rep.set("kernel_lengths_mod8", (len % 8).to_string());
}

// ---------------------------------------------------------------------- IIR

fn iir_case(cx: &mut Ctxt, rng: &mut Rng) {
    // SinglePoleIirFilter block: y = a*x + (1-a)*y_prev, bit exact.
    let n = rng.range(0, 2500);
    let alpha = rng.f32_unit().abs();
    let data = gen_f32(rng, n);
    let seed = rng.next();
    let replay = json!({"part": "iir", "alpha": alpha, "n": n, "seed": seed.to_string()});
    match run_both::<f32, f32>(&data, 4096, seed, &move |r| {
        let (b, o) = SinglePoleIirFilter::new(r, alpha).unwrap();
        (Box::new(b), o)
    }) {
        Err(e) => cx.fail("C11|SinglePoleIirFilter|died", e, replay.clone()),
        Ok((one, chunked)) => {
            let mut y = 0f32;
            let oma = 1.0 - alpha;
            let spec: Vec<f32> = data
                .iter()
                .map(|x| {
                    y = x * alpha + y * oma;
                    y
                })
                .collect();
            if crate::ring::as_bytes(&one) != crate::ring::as_bytes(&spec) || crate::ring::as_bytes(&chunked) != crate::ring::as_bytes(&spec) {
                cx.fail("C11|SinglePoleIirFilter|recurrence", format!("output differs from y = a*x + (1-a)*y_prev (alpha {alpha}, n {n})"), replay.clone());
            }
            cx.rep.count("iir_samples_checked", n as u64);
        }
    }
    // IirFilter: documented tap convention.
    let nt = rng.range(1, 6);
    let taps: Vec<f32> = (0..nt).map(|_| rng.f32_unit() * 0.4).collect();
    let mut f = IirFilter::new(&taps);
    let fill = rng.chance(1, 2);
    let mut hist: Vec<f32> = Vec::new(); // previous outputs, newest last, at most nt-1
    if fill {
        let v = rng.f32_unit();
        f.fill(v);
        hist = vec![v; nt - 1];
    }
    let clamp = rng.chance(1, 2);
    for step in 0..rng.range(1, 200) {
        let x = rng.f32_unit() * 2.0;
        let mut want = taps[0] * x;
        for (i, s) in hist.iter().rev().enumerate() {
            want = want + *s * taps[i + 1];
        }
        let got = if clamp {
            want = want.clamp(-0.5, 0.5);
            f.filter_clamped(x, -0.5, 0.5)
        } else {
            f.filter(x)
        };
        hist.push(want);
        if hist.len() == nt {
            hist.remove(0);
        }
        if got.to_bits() != want.to_bits() {
            cx.fail("C11|IirFilter|recurrence", format!("step {step}: filter gave {got}, recurrence {want} (taps {taps:?}, fill {fill}, clamped {clamp})"), json!({"part": "iirfilter"}));
            break;
        }
        cx.rep.count("iir_samples_checked", 1);
    }
}

// ------------------------------------------------------------------ Hilbert

fn hilbert_case(cx: &mut Ctxt, rng: &mut Rng) {
    let ntaps = rng.range(1, 40) * 2 + 1;
    let n = rng.range(0, 2500);
    let data = gen_f32(rng, n);
    let seed = rng.next();
    let replay = json!({"part": "hilbert", "ntaps": ntaps, "n": n, "seed": seed.to_string()});
    let win = WindowType::Hamming;
    let htaps = rustradio::fir::hilbert(&win.make_window(ntaps));
    // taps: antisymmetric, zero at even offsets from the centre
    let mid = (ntaps - 1) / 2;
    for i in 0..=mid {
        let (a, b) = (htaps[mid + i], htaps[mid - i]);
        if (a + b).abs() > 1e-5 * a.abs() + 1e-9 || (i % 2 == 0 && a != 0.0) {
            cx.fail("C11|fir::hilbert|taps-not-antisymmetric", format!("ntaps {ntaps}: taps[mid+{i}]={a}, taps[mid-{i}]={b}"), replay.clone());
            return;
        }
    }
    let r = run_both::<f32, C32>(&data, 4096, seed, &move |r| {
        let (b, o) = Hilbert::new(r, ntaps, &WindowType::Hamming);
        (Box::new(b), o)
    });
    let (one, chunked) = match r {
        Ok(x) => x,
        Err(e) => return cx.fail("C11|Hilbert|died", e, replay),
    };
    if crate::ring::as_bytes(&one) != crate::ring::as_bytes(&chunked) {
        return cx.fail("C11|Hilbert|chunking-changes-output", "one-shot and chunked outputs differ".into(), replay);
    }
    let delay = (ntaps + 1) / 2;
    // iv = zeros(ntaps) ++ data ; out[i] = (iv[i + ntaps/2], dot(rev taps, iv[i..i+ntaps]))
    for (i, y) in one.iter().enumerate() {
        let want_re = if i >= delay { data[i - delay] } else { 0.0 };
        if y.re.to_bits() != want_re.to_bits() {
            return cx.fail("C11|Hilbert|real-part-not-delayed-input", format!("output {i}: re {} vs input delayed by {delay}: {want_re}", y.re), replay);
        }
        let mut acc = 0f64;
        let mut mag = 0f64;
        for k in 0..ntaps {
            let idx = i + k; // index into iv
            let x = if idx >= ntaps { data[idx - ntaps] as f64 } else { 0.0 };
            let p = x * htaps[ntaps - 1 - k] as f64;
            acc += p;
            mag += p.abs();
        }
        let bound = 2.0 * ntaps as f64 * U * mag + 1e-40;
        let err = (y.im as f64 - acc).abs();
        cx.ratio("Hilbert", err, bound);
        if !(err <= bound) {
            return cx.fail("C11|Hilbert|imag-differs-from-dot-product", format!("output {i}: im {} vs {acc}, |err| {err:e} > {bound:e}", y.im), replay);
        }
    }
    cx.rep.count("hilbert_outputs_checked", one.len() as u64);
    // envelope of an in-band tone ~ amplitude
    if ntaps >= 31 {
        let amp = 0.7f32;
        let tone: Vec<f32> = (0..1500).map(|i| amp * (i as f32 * std::f32::consts::FRAC_PI_2 * 0.9).sin()).collect();
        if let Ok((o, _)) = run_both::<f32, C32>(&tone, 16384, seed, &move |r| {
            let (b, o) = Hilbert::new(r, ntaps, &WindowType::Hamming);
            (Box::new(b), o)
        }) {
            for y in o.iter().skip(2 * ntaps) {
                let env = (y.re * y.re + y.im * y.im).sqrt();
                if (env - amp).abs() > 0.08 * amp {
                    cx.fail("C11|Hilbert|envelope", format!("ntaps {ntaps}: envelope {env} of a tone of amplitude {amp}"), replay.clone());
                    break;
                }
            }
            cx.rep.count("hilbert_envelope_checks", 1);
        }
    }
}

// ------------------------------------------------------------- demodulators

fn demod_case(cx: &mut Ctxt, rng: &mut Rng) {
    let n = rng.range(0, 2500);
    let gain = 0.2 + rng.f32_unit().abs() * 3.0;
    let tone = rng.chance(1, 2);
    let f = rng.f32_unit() * 0.45; // cycles per sample
    let mut data: Vec<C32> = if tone {
        (0..n).map(|i| C32::from_polar(0.5 + 0.3 * ((i % 7) as f32 / 7.0), 2.0 * std::f32::consts::PI * f * i as f32)).collect()
    } else {
        gen_c32(rng, n)
    };
    // Gaps of exact zeroes (squelched bursts, zero padding): arg(0) is 0 by the
    // definition the block uses, and the sample after a gap is compared with
    // the zero before it, not with the last sample of the previous burst.
    let gaps = if !tone && n > 4 && rng.chance(1, 2) { rng.range(1, 3) } else { 0 };
    for _ in 0..gaps {
        let at = rng.below(n);
        let len = rng.range(1, 20);
        for x in data.iter_mut().skip(at).take(len) {
            *x = C32::new(0.0, 0.0);
        }
    }
    let seed = rng.next();
    let replay = json!({"part": "demod", "n": n, "gain": gain, "tone": tone, "f": f, "zero_gaps": gaps, "seed": seed.to_string()});
    match run_both::<C32, f32>(&data, 4096, seed, &move |r| {
        let (b, o) = QuadratureDemod::new(r, gain);
        (Box::new(b), o)
    }) {
        Err(e) => cx.fail("C11|QuadratureDemod|died", e, replay.clone()),
        Ok((one, chunked)) => {
            if crate::ring::as_bytes(&one) != crate::ring::as_bytes(&chunked) {
                return cx.fail("C11|QuadratureDemod|chunking-changes-output", "one-shot and chunked outputs differ".into(), replay);
            }
            let mut last = C32::new(0.0, 0.0);
            for (i, y) in one.iter().enumerate() {
                let s = data[i];
                let t = s * last.conj();
                last = s;
                let want = gain as f64 * (t.im as f64).atan2(t.re as f64);
                // product rounding: relative 4u on each component, atan2 few ulps
                // An exactly zero product has an exact answer (atan2 of signed zeroes);
                // only a product in the denormal range has no meaningful angle.
                let n2 = t.norm_sqr();
                let tol = 1e-5 * gain as f64 + 64.0 * U * want.abs() + if n2 > 0.0 && n2 < 1e-30 { 4.0 * gain as f64 } else { 0.0 };
                if n2 == 0.0 {
                    cx.rep.count("demod_samples_after_or_in_a_zero_gap", 1);
                }
                if !((*y as f64 - want).abs() <= tol) {
                    return cx.fail("C11|QuadratureDemod|identity", format!("output {i}: {y} vs gain*arg(s*conj(s_prev)) = {want}"), replay);
                }
                if tone && i > 0 {
                    let expect = gain as f64 * 2.0 * std::f64::consts::PI * f as f64;
                    if (*y as f64 - expect).abs() > 2e-3 * gain as f64 {
                        return cx.fail("C11|QuadratureDemod|tone-frequency", format!("tone of {f} cycles/sample: output {y}, expected {expect}"), replay);
                    }
                }
            }
            cx.rep.count("demod_samples_checked", one.len() as u64);
        }
    }
    match run_both::<C32, f32>(&data, 4096, seed, &|r| {
        let (b, o) = FastFM::new(r);
        (Box::new(b), o)
    }) {
        Err(e) => cx.fail("C11|FastFM|died", e, replay.clone()),
        Ok((one, chunked)) => {
            let (mut q1, mut q2) = (C32::new(0.0, 0.0), C32::new(0.0, 0.0));
            let spec: Vec<f32> = data
                .iter()
                .map(|s| {
                    let top = (s.im - q2.im) * q1.re;
                    let bottom = (s.re - q2.re) * q1.im;
                    q2 = q1;
                    q1 = *s;
                    top - bottom
                })
                .collect();
            if crate::ring::as_bytes(&one) != crate::ring::as_bytes(&spec) || crate::ring::as_bytes(&chunked) != crate::ring::as_bytes(&spec) {
                cx.fail("C11|FastFM|defining-expression", "output differs from (im-im2)*re1 - (re-re2)*im1".into(), replay);
            }
            cx.rep.count("demod_samples_checked", one.len() as u64);
        }
    }
}

// ----------------------------------------------------------------- low_pass

fn window_name(w: &WindowType) -> String {
    match w {
        WindowType::Blackman => "Blackman".into(),
        WindowType::BlackmanHarris => "BlackmanHarris".into(),
        WindowType::Hamming => "Hamming".into(),
        WindowType::HammingParm(p) => format!("HammingParm({p})"),
    }
}

fn lowpass_case(cx: &mut Ctxt, rng: &mut Rng) {
    let samp = *rng.pick(&[8000.0f32, 44100.0, 50000.0, 1_000_000.0]);
    let cutoff = samp * (0.02 + 0.4 * rng.f32_unit().abs());
    let tw = samp * (0.004 + 0.1 * rng.f32_unit().abs());
    for w in [WindowType::Hamming, WindowType::HammingParm(0.54), WindowType::Blackman, WindowType::BlackmanHarris] {
        let name = window_name(&w);
        let replay = json!({"part": "low_pass", "samp_rate": samp, "cutoff": cutoff, "twidth": tw, "window": name});
        let taps = match catch(|| rustradio::fir::low_pass(samp, cutoff, tw, &w)) {
            Ok(t) => t,
            Err(p) => {
                cx.fail(&format!("C11|low_pass({name})|panic"), p, replay);
                continue;
            }
        };
        let n = taps.len();
        cx.rep.count("lowpass_tap_sets", 1);
        cx.rep.set("window_types", name.clone());
        let scale = taps.iter().map(|t| t.abs() as f64).sum::<f64>();
        let mut asym = 0f64;
        for i in 0..n / 2 {
            asym = asym.max((taps[i] as f64 - taps[n - 1 - i] as f64).abs());
        }
        let sum: f64 = taps.iter().map(|t| *t as f64).sum();
        let tol = 8.0 * n as f64 * U * scale.max(1.0);
        if asym > tol {
            cx.fail(&format!("C11|low_pass({name})|taps-not-symmetric"), format!("{n} taps: max |taps[i]-taps[n-1-i]| = {asym:e} (tolerance {tol:e})"), replay.clone());
        }
        if (sum - 1.0).abs() > tol {
            cx.fail(&format!("C11|low_pass({name})|dc-gain-not-unity"), format!("{n} taps: sum = {sum} (tolerance {tol:e})"), replay.clone());
        }
        let tc = rustradio::fir::low_pass_complex(samp, cutoff, tw, &w);
        if tc.len() != n || tc.iter().zip(&taps).any(|(c, t)| c.re.to_bits() != t.to_bits() || c.im != 0.0) {
            cx.fail(&format!("C11|low_pass_complex({name})|differs-from-real-taps"), "complex taps are not the real taps with zero imaginary part".into(), replay);
        }
    }
}

pub fn main(opts: &Opts) -> Report {
    let mut rep = Report::new("C11");
    rep.rule = "seeded parameter draws: FirFilter (taps 1..200, decimation 1..8, random/impulse/step/sinusoid inputs, one-shot and drip-fed) against an f64 sliding dot product with bound 2*n*u*sum|a_i b_i|; FftFilter/FftFilterFloat against f64 linear convolution with zero pre-history (bound 32*u*log2(N)*|x_block|*|h|) and against FirFilter shifted by ntaps-1; Fir::filter_float for every length 0..70 in this build's kernel (scalar / AVX / std::simd); Fir::filter_n and filter_n_inplace (1-12 taps, decimation 1-8, 0-40 extra samples): one output per window position, each bit-equal to filter() there; SinglePoleIirFilter, IirFilter (fill, clamped) and FastFM bit-exact against their recurrences; Hilbert (delay, dot product, antisymmetric taps, envelope); QuadratureDemod identity and tone frequency; low_pass/low_pass_complex symmetry and unit DC gain for every window type; distinct = (part, parameters)".into();
    rep.assume("tolerances are derived forward error bounds of the f32 computation with u = 2^-24, not tuned constants");
    rec::install(true);
    let mut cx = Ctxt { rep: &mut rep, fails: Vec::new() };
    cx.rep.set("kernel_build", build_kind());
    if let Some(path) = &opts.replay {
        // Parts are cheap: replay re-runs the whole quick workload of the part.
        let v: Value = serde_json::from_str(&std::fs::read_to_string(path).expect("replay file")).expect("json");
        let part = v["replay"]["part"].as_str().unwrap_or("").to_string();
        let mut rng = Rng::new(1);
        for _ in 0..200 {
            cx.rep.eval();
            match part.as_str() {
                "fir" => fir_case(&mut cx, &mut rng),
                "fft" => fft_case(&mut cx, &mut rng),
                "iir" | "iirfilter" => iir_case(&mut cx, &mut rng),
                "hilbert" => hilbert_case(&mut cx, &mut rng),
                "demod" => demod_case(&mut cx, &mut rng),
                "low_pass" => lowpass_case(&mut cx, &mut rng),
                _ => {
                    for len in 0..=70 {
                        kernel_case(&mut cx, &mut rng, len);
                    }
                }
            }
        }
    } else {
        let mut rng = Rng::new(opts.shard_seed() ^ 0xC11);
        let kernel_only = opts.flag("kernel-only");
        let rounds = opts.budget(16 * 150, 16 * 5000);
        for round in 0..rounds {
            for len in 0..=70 {
                cx.rep.eval();
                kernel_case(&mut cx, &mut rng, len);
            }
            if kernel_only {
                if round >= 3 {
                    break;
                }
                continue;
            }
            for part in 0..6 {
                cx.rep.eval();
                let h = rng.next();
                cx.rep.distinct(hmix(part, h));
                let mut r2 = Rng::new(h);
                if cx.rep.want_sample() {
                    let name = ["FirFilter vs f64 sliding dot product", "FftFilter(Float) vs f64 linear convolution", "IIR recurrences", "Hilbert", "QuadratureDemod/FastFM", "low_pass taps"][part as usize];
                    cx.rep.sample(json!({"part": name, "case_seed": h.to_string(), "kernel_build": build_kind()}));
                }
                if part == 0 {
                    filter_n_case(&mut cx, &mut Rng::new(h ^ 0xF17));
                }
                match part {
                    0 => fir_case(&mut cx, &mut r2),
                    1 => fft_case(&mut cx, &mut r2),
                    2 => iir_case(&mut cx, &mut r2),
                    3 => hilbert_case(&mut cx, &mut r2),
                    4 => demod_case(&mut cx, &mut r2),
                    _ => lowpass_case(&mut cx, &mut r2),
                }
            }
        }
    }
    let fails = std::mem::take(&mut cx.fails);
    drop(cx);
    for (sig, d, r) in fails {
        rep.violation(sig, d, r);
    }
    rep
}
