//! C18: streams release every mapping and descriptor; the two halves alias;
//! set-up failures are errors that leave nothing behind.
use crate::rec;
use crate::ring::{Case as RingCase, Gen, run_case as ring_case};
use crate::util::*;
use rustradio::circular_buffer::Buffer;
use rustradio::stream::new_stream;
use serde_json::{Value, json};
use std::sync::Arc;

fn deleted_mappings() -> usize {
    std::fs::read_to_string("/proc/self/maps")
        .map(|s| s.lines().filter(|l| l.contains("(deleted)")).count())
        .unwrap_or(usize::MAX)
}
fn fd_count() -> usize {
    std::fs::read_dir("/proc/self/fd").map(|d| d.count()).unwrap_or(usize::MAX)
}

enum AnyBuf {
    A(Arc<Buffer<u8>>),
    B(Arc<Buffer<u32>>),
    C(Arc<Buffer<[u8; 16]>>),
    S(rustradio::stream::WriteStream<f32>, rustradio::stream::ReadStream<f32>),
}
impl AnyBuf {
    fn raw(&self) -> (*mut u8, usize) {
        match self {
            AnyBuf::A(b) => b.verif_raw(),
            AnyBuf::B(b) => b.verif_raw(),
            AnyBuf::C(b) => b.verif_raw(),
            AnyBuf::S(_, r) => r.verif_raw(),
        }
    }
}

fn create(rng: &mut Rng) -> Result<AnyBuf, String> {
    // mostly small; now and then the sizes real streams have (1 MiB, 2 MiB, the
    // 4 096 000-byte default), where huge-page placement and alignment come into play
    let pages = if rng.chance(1, 40) { *rng.pick(&[256usize, 512, 1000]) } else { *rng.pick(&[1usize, 1, 2, 3, 8]) };
    if pages >= 256 {
        BIG_STREAMS.fetch_add(1, std::sync::atomic::Ordering::SeqCst);
    }
    let size = pages * rec::PAGE;
    Ok(match rng.below(4) {
        0 => AnyBuf::A(Arc::new(Buffer::new(size).map_err(|e| e.to_string())?)),
        1 => AnyBuf::B(Arc::new(Buffer::new(size).map_err(|e| e.to_string())?)),
        2 => AnyBuf::C(Arc::new(Buffer::new(size).map_err(|e| e.to_string())?)),
        _ => {
            rec::stream_size(size);
            let (w, r) = new_stream::<f32>();
            rec::stream_size(0);
            AnyBuf::S(w, r)
        }
    })
}

/// Byte i and byte i + size are the same memory, for every page and 64 random offsets per page.
fn alias_check(b: &AnyBuf, rng: &mut Rng, rep: &mut Report) -> Option<String> {
    let (base, len) = b.raw();
    let size = len / 2;
    let pages = size / rec::PAGE;
    for p in 0..pages {
        for k in 0..64 {
            let off = p * rec::PAGE + if k == 0 { 0 } else if k == 1 { rec::PAGE - 1 } else { rng.below(rec::PAGE) };
            let v = (rng.next() as u8) | 1;
            // SAFETY: both addresses are inside the buffer's own double mapping
            // (base .. base + 2*size), which is alive while `b` is.
            unsafe {
                let lo = base.add(off);
                let hi = base.add(size + off);
                std::ptr::write_volatile(lo, v);
                let r1 = std::ptr::read_volatile(hi);
                std::ptr::write_volatile(hi, v.wrapping_add(1));
                let r2 = std::ptr::read_volatile(lo);
                std::ptr::write_volatile(lo, 0);
                rep.count("alias_probes", 2);
                if r1 != v || r2 != v.wrapping_add(1) {
                    return Some(format!("byte {off} and byte {off}+{size} are not the same memory (wrote {v} low, read {r1} high; wrote {} high, read {r2} low)", v.wrapping_add(1)));
                }
            }
        }
    }
    None
}

static BIG_STREAMS: std::sync::atomic::AtomicU64 = std::sync::atomic::AtomicU64::new(0);
static REFUSED_IN_HISTORIES: std::sync::atomic::AtomicU64 = std::sync::atomic::AtomicU64::new(0);
static POISONED_IN_HISTORIES: std::sync::atomic::AtomicU64 = std::sync::atomic::AtomicU64::new(0);

fn histories(opts: &Opts, rep: &mut Report) {
    let mut rng = Rng::new(opts.shard_seed() ^ 0xC18);
    let rounds = opts.budget(16 * 60, 16 * 3000);
    for _ in 0..rounds {
        let seed = rng.next();
        let nthreads = *rng.pick(&[1usize, 1, 2, 4, 8]);
        let base_maps = deleted_mappings();
        let base_fds = fd_count();
        rep.eval();
        rep.count("histories", 1);
        rep.distinct(seed);
        let replay = json!({"part": "history", "seed": seed.to_string(), "threads": nthreads});
        let mut handles = Vec::new();
        let peak = Arc::new(std::sync::atomic::AtomicUsize::new(0));
        let live_total = Arc::new(std::sync::atomic::AtomicUsize::new(0));
        for t in 0..nthreads {
            let peak = peak.clone();
            let live_total = live_total.clone();
            handles.push(std::thread::spawn(move || -> Result<(u64, u64, u64, Option<String>), String> {
                let mut rng = Rng::new(hmix(seed, t as u64));
                let mut live: Vec<AnyBuf> = Vec::new();
                let mut created = 0u64;
                let mut unwinds = 0u64;
                let mut refused = 0u64;
                let mut poisoned = 0u64;
                let mut sub = Report::new("C18");
                let ops = rng.range(20, 200 / nthreads.max(1) + 20);
                for _ in 0..ops {
                    if live.is_empty() || (live.len() < 200 / nthreads && rng.chance(3, 5)) {
                        live.push(create(&mut rng)?);
                        created += 1;
                        let l = live_total.fetch_add(1, std::sync::atomic::Ordering::SeqCst) + 1;
                        peak.fetch_max(l, std::sync::atomic::Ordering::SeqCst);
                        if rng.chance(1, 3) {
                            if let Some(e) = alias_check(live.last().unwrap(), &mut rng, &mut sub) {
                                return Ok((created, 0, unwinds, Some(e)));
                            }
                        }
                    } else if rng.chance(1, 8) {
                        // A creation that has to be refused (size not a page multiple),
                        // concurrently with the other threads' creations and drops: its
                        // clean-up must not touch anybody else's mapping.
                        let bad = rec::PAGE * rng.range(1, 4) + 2048;
                        match Buffer::<u8>::new(bad) {
                            Err(_) => refused += 1,
                            Ok(_) => return Err(format!("Buffer::<u8>::new({bad}) succeeded")),
                        }
                        if let Some(b) = live.last() {
                            if let Some(e) = alias_check(b, &mut rng, &mut sub) {
                                return Ok((created, 0, unwinds, Some(e)));
                            }
                        }
                    } else if rng.chance(1, 10) {
                        // A contained panic *inside* a stream operation (an over-large
                        // consume is refused by an assert under the state lock), then the
                        // stream is dropped normally: everything must still be released.
                        let (w, r) = rustradio::stream::new_stream::<u8>();
                        let res = std::panic::catch_unwind(std::panic::AssertUnwindSafe(|| {
                            let (rb, _) = r.read_buf().unwrap();
                            rb.consume(1); // nothing is readable: refused
                            panic!("verif: contained panic: the over-large consume was accepted");
                        }));
                        assert!(res.is_err());
                        drop((w, r));
                        poisoned += 1;
                    } else if rng.chance(1, 6) {
                        // Dropped by a panic that unwinds through the owner (and is
                        // contained, as by join() or catch_unwind): the release path
                        // runs with std::thread::panicking() == true.
                        let k = rng.range(1, std::cmp::min(3, live.len()));
                        let victims: Vec<AnyBuf> = (0..k).map(|_| live.swap_remove(rng.below(live.len()))).collect();
                        live_total.fetch_sub(k, std::sync::atomic::Ordering::SeqCst);
                        let r = std::panic::catch_unwind(std::panic::AssertUnwindSafe(move || {
                            let _owned = victims;
                            panic!("verif: contained panic that drops streams while unwinding");
                        }));
                        assert!(r.is_err());
                        unwinds += k as u64;
                    } else {
                        let i = rng.below(live.len());
                        live.swap_remove(i);
                        live_total.fetch_sub(1, std::sync::atomic::Ordering::SeqCst);
                    }
                }
                live_total.fetch_sub(live.len(), std::sync::atomic::Ordering::SeqCst);
                drop(live);
                let _ = refused;
                REFUSED_IN_HISTORIES.fetch_add(refused, std::sync::atomic::Ordering::SeqCst);
                POISONED_IN_HISTORIES.fetch_add(poisoned, std::sync::atomic::Ordering::SeqCst);
                Ok((created, sub.counters.get("alias_probes").copied().unwrap_or(0), unwinds, None))
            }));
        }
        let mut created = 0;
        for h in handles {
            match h.join() {
                Ok(Ok((c, probes, unw, alias_err))) => {
                    created += c;
                    rep.count("alias_probes", probes);
                    rep.count("drops_during_contained_unwind", unw);
                    if let Some(e) = alias_err {
                        rep.violation("C18|halves-do-not-alias", e, replay.clone());
                    }
                }
                Ok(Err(e)) => rep.violation("C18|stream-creation-failed", e, replay.clone()),
                Err(p) => rep.violation("C18|panic-in-create-drop-history", panic_msg(&p), replay.clone()),
            }
        }
        rep.count("streams_created", created);
        rep.count("streams_of_1MiB_and_more", BIG_STREAMS.swap(0, std::sync::atomic::Ordering::SeqCst));
        rep.count("refused_creations_during_histories", REFUSED_IN_HISTORIES.swap(0, std::sync::atomic::Ordering::SeqCst));
        rep.count("streams_dropped_after_a_contained_panic_under_their_lock", POISONED_IN_HISTORIES.swap(0, std::sync::atomic::Ordering::SeqCst));
        rep.max("live_streams", peak.load(std::sync::atomic::Ordering::SeqCst) as u64);
        rep.set("thread_counts", nthreads.to_string());
        // quiescent point
        let (m, f) = (deleted_mappings(), fd_count());
        if m != base_maps {
            rep.violation("C18|mappings-leaked", format!("{} tmpfile mappings before the history, {m} after all {created} streams were dropped", base_maps), replay.clone());
        }
        if f != base_fds {
            rep.violation("C18|descriptors-leaked", format!("{} descriptors before, {f} after", base_fds), replay.clone());
        }
        if rep.want_sample() {
            rep.sample(json!({"history_seed": seed.to_string(), "threads": nthreads, "streams_created": created, "peak_live": peak.load(std::sync::atomic::Ordering::SeqCst)}));
        }
    }
}

fn error_paths(rep: &mut Report) {
    let base_maps = deleted_mappings();
    let base_fds = fd_count();
    let mut bad = 0;
    for size in [1usize, 100, 4095, 4097, 6000, 8191, 12289] {
        rep.count("error_path_cases", 1);
        match catch(|| Buffer::<u8>::new(size).map(|_| ())) {
            Ok(Err(_)) => {}
            Ok(Ok(())) => {
                bad += 1;
                rep.violation("C18|non-page-size-accepted", format!("Buffer::<u8>::new({size}) succeeded"), json!({"part": "error-paths", "size": size}));
            }
            Err(p) => rep.violation("C18|non-page-size-panics", format!("Buffer::<u8>::new({size}) panicked: {p}"), json!({"part": "error-paths", "size": size})),
        }
    }
    for size in [4096usize, 8192, 32768] {
        rep.count("error_path_cases", 3);
        for (name, r) in [
            ("[u8;3]", catch(|| Buffer::<[u8; 3]>::new(size).map(|_| ()))),
            ("[u8;12]", catch(|| Buffer::<[u8; 12]>::new(size).map(|_| ()))),
            ("()", catch(|| Buffer::<()>::new(size).map(|_| ()))),
        ] {
            match r {
                Ok(Err(_)) => {}
                Ok(Ok(())) => rep.violation("C18|non-dividing-element-size-accepted", format!("Buffer::<{name}>::new({size}) succeeded"), json!({"part": "error-paths", "elem": name, "size": size})),
                Err(p) => rep.violation("C18|non-dividing-element-size-panics", format!("Buffer::<{name}>::new({size}) panicked: {p}"), json!({"part": "error-paths", "elem": name, "size": size})),
            }
        }
    }
    // Sizing the backing file fails (2 * size exceeds the largest file offset):
    // an error, and neither the descriptor nor anything else may stay behind.
    for size in [1usize << 62, (1usize << 62) + 4096] {
        for _ in 0..20 {
            rep.count("error_path_cases", 1);
            match catch(|| Buffer::<u8>::new(size).map(|_| ())) {
                Ok(Err(_)) => {}
                Ok(Ok(())) => rep.violation("C18|absurd-size-accepted", format!("Buffer::<u8>::new({size}) succeeded"), json!({"part": "error-paths", "size": size})),
                Err(p) => rep.violation("C18|backing-file-sizing-failure-panics", format!("Buffer::<u8>::new({size}) panicked: {p}"), json!({"part": "error-paths", "size": size})),
            }
        }
    }
    let _ = bad;
    let (m, f) = (deleted_mappings(), fd_count());
    if m != base_maps || f != base_fds {
        rep.violation("C18|error-path-leaves-mapping-or-descriptor", format!("mappings {base_maps}->{m}, descriptors {base_fds}->{f} after refused creations"), json!({"part": "error-paths"}));
    }
    // streams created afterwards still work
    let c = RingCase { elem: "u32", size: rec::PAGE, path: "raw", generator: Gen::Walker, ops: 500, seed: 99 };
    let o = ring_case(&c, false, &mut Report::new("C01"));
    if let Some((class, d)) = o.violation {
        rep.violation(format!("C18|stream-after-refused-creation|{class}"), d, json!({"part": "error-paths"}));
    }
}

/// Child process: mapping failures injected by RLIMIT_AS or the LD_PRELOAD shim.
pub fn child(mode: &str) -> i32 {
    rec::install(false);
    let report = |ok: bool, msg: String| -> i32 {
        println!("{}", json!({"ok": ok, "msg": msg}));
        if ok { 0 } else { 3 }
    };
    // two healthy streams first (shim: counted calls 1-4)
    let s1 = Buffer::<u32>::new(rec::PAGE);
    let s2 = Buffer::<u32>::new(2 * rec::PAGE);
    if s1.is_err() || s2.is_err() {
        return report(false, "set-up streams could not be created".into());
    }
    let base_maps = deleted_mappings();
    let base_fds = fd_count();
    let attempt = if mode == "rlimit" {
        // Leave ~8 MiB of head-room, then ask for a 64 MiB stream (128 MiB mapping).
        let vm: usize = std::fs::read_to_string("/proc/self/statm").ok().and_then(|s| s.split_whitespace().next().and_then(|x| x.parse().ok())).unwrap_or(0) * 4096;
        let lim = libc::rlimit { rlim_cur: (vm + (8 << 20)) as u64, rlim_max: libc::RLIM_INFINITY };
        // SAFETY: plain libc call.
        unsafe { libc::setrlimit(libc::RLIMIT_AS, &lim) };
        let r = catch(|| Buffer::<u32>::new(64 << 20).map(|_| ()));
        let unlim = libc::rlimit { rlim_cur: libc::RLIM_INFINITY, rlim_max: libc::RLIM_INFINITY };
        // SAFETY: plain libc call.
        unsafe { libc::setrlimit(libc::RLIMIT_AS, &unlim) };
        r
    } else {
        // the shim disturbs the counted call given in the environment (5 or 6)
        catch(|| Buffer::<u32>::new(4 * rec::PAGE).map(|_| ()))
    };
    match attempt {
        Err(p) => return report(false, format!("mapping failure caused a panic: {p}")),
        Ok(Ok(())) => return report(false, "the injected mapping failure did not make Buffer::new fail".into()),
        Ok(Err(_)) => {}
    }
    let (m, f) = (deleted_mappings(), fd_count());
    if m != base_maps {
        return report(false, format!("a mapping was left behind after the failed creation ({base_maps} -> {m})"));
    }
    if f != base_fds {
        return report(false, format!("a descriptor was left behind after the failed creation ({base_fds} -> {f})"));
    }
    // later streams work
    let c = RingCase { elem: "u32", size: rec::PAGE, path: "raw", generator: Gen::Walker, ops: 400, seed: 7 };
    let o = ring_case(&c, false, &mut Report::new("C01"));
    if let Some((class, d)) = o.violation {
        return report(false, format!("stream created after the failure misbehaves: {class}: {d}"));
    }
    drop((s1, s2));
    report(true, "Err returned, nothing left behind, later stream healthy".into())
}

fn mapping_failures(rep: &mut Report) {
    let exe = std::env::current_exe().expect("exe");
    let shim = std::path::Path::new("/verif/.build/mmapshim.so");
    let mut kinds: Vec<(&str, Vec<(&str, String)>)> = vec![("rlimit-as:first-mmap", vec![])];
    if shim.exists() {
        kinds.push(("shim:first-mmap-enomem", vec![("LD_PRELOAD", shim.display().to_string()), ("VERIF_MMAP_NTH", "5".into()), ("VERIF_MMAP_MODE", "enomem".into())]));
        kinds.push(("shim:second-mmap-enomem", vec![("LD_PRELOAD", shim.display().to_string()), ("VERIF_MMAP_NTH", "6".into()), ("VERIF_MMAP_MODE", "enomem".into())]));
        kinds.push(("shim:second-mmap-elsewhere", vec![("LD_PRELOAD", shim.display().to_string()), ("VERIF_MMAP_NTH", "6".into()), ("VERIF_MMAP_MODE", "elsewhere".into())]));
    } else {
        rep.inconclusive("mmap shim not built (cc missing?): /verif/.build/mmapshim.so");
    }
    for (name, env) in kinds {
        rep.eval();
        rep.count("injected_mapping_failures", 1);
        rep.set("injected_failure_kinds", name);
        let mut cmd = std::process::Command::new(&exe);
        cmd.arg("c18-child").arg(if name.starts_with("rlimit") { "rlimit" } else { "shim" });
        for (k, v) in &env {
            cmd.env(k, v);
        }
        let replay = json!({"part": "mapping-failure", "kind": name});
        match cmd.output() {
            Err(e) => rep.inconclusive(format!("cannot run child: {e}")),
            Ok(o) => {
                let txt = String::from_utf8_lossy(&o.stdout).to_string();
                let v: Option<Value> = txt.lines().rev().find_map(|l| serde_json::from_str(l).ok());
                match (o.status.code(), v) {
                    (Some(0), Some(_)) => {}
                    (Some(3), Some(v)) => rep.violation(format!("C18|{name}|{}", sig_of_msg(v["msg"].as_str().unwrap_or(""))), v["msg"].as_str().unwrap_or("").to_string(), replay),
                    (code, _) => rep.violation(format!("C18|{name}|child-died"), format!("child exited with {code:?} (signal/abort) on an injected mapping failure; stderr: {}", String::from_utf8_lossy(&o.stderr).chars().take(400).collect::<String>()), replay),
                }
            }
        }
    }
}

pub fn main(opts: &Opts) -> Report {
    // The histories contain intended, contained panics: keep their messages out
    // of the log (every other panic still reaches the report through catch/join).
    let prev = std::panic::take_hook();
    std::panic::set_hook(Box::new(move |info| {
        if !info.to_string().contains("verif: contained panic") && !info.to_string().contains("trying to consume") {
            prev(info);
        }
    }));
    let mut rep = Report::new("C18");
    rep.rule = "random create/drop histories of up to 200 streams (u8,u32,[u8;16] buffers and stream pairs; 1,2,3,8 pages) over 1-8 threads with the count of deleted-tmpfile mappings in /proc/self/maps and of /proc/self/fd entries compared with the baseline at every quiescent point; aliasing probes through a hook accessor (for every page: first byte, last byte and 62 random offsets, written low/read high and written high/read low); refused creations (non-page sizes, element sizes 3, 12 and 0) leave nothing behind and later streams pass a ring history; mapping failures injected in a child by RLIMIT_AS and by an LD_PRELOAD shim (first mmap ENOMEM, second mmap ENOMEM, second mmap at a different address); distinct = history seed".into();
    rep.assume("leak detection counts mappings of deleted files and open descriptors of the whole process; histories therefore run one at a time per worker process");
    rec::install(false);
    histories(opts, &mut rep);
    if opts.shard == 0 {
        rep.eval();
        error_paths(&mut rep);
        mapping_failures(&mut rep);
    }
    rep
}
