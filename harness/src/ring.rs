//! Ring history engine: C01 (samples) and C02 (tags).
//!
//! Random, "walker" and boundary operation histories on one stream from one
//! thread, compared against an executable model (a queue of unique sample ids
//! with their tags) after every operation.
use crate::rec::PAGE;
use crate::util::*;
use num_complex::Complex;
use rustradio::circular_buffer::{Buffer, BufferReader, BufferWriter};
use rustradio::stream::{ReadStream, Tag, TagValue, WriteStream, new_stream};
use serde_json::{Value, json};
use std::collections::VecDeque;
use std::sync::Arc;

pub trait Elem: Copy + Send + Sync + 'static {
    const NAME: &'static str;
    fn from_id(id: u64) -> Self;
}
impl Elem for u8 {
    const NAME: &'static str = "u8";
    fn from_id(id: u64) -> Self {
        // Not unique, but position dependent and aperiodic enough.
        (hmix(id, 7) & 0xff) as u8
    }
}
impl Elem for u16 {
    const NAME: &'static str = "u16";
    fn from_id(id: u64) -> Self {
        id as u16
    }
}
impl Elem for u32 {
    const NAME: &'static str = "u32";
    fn from_id(id: u64) -> Self {
        id as u32
    }
}
impl Elem for u64 {
    const NAME: &'static str = "u64";
    fn from_id(id: u64) -> Self {
        id
    }
}
impl Elem for [u8; 16] {
    const NAME: &'static str = "[u8;16]";
    fn from_id(id: u64) -> Self {
        let mut r = [0u8; 16];
        r[..8].copy_from_slice(&id.to_le_bytes());
        r[8..].copy_from_slice(&hmix(id, 1).to_le_bytes());
        r
    }
}
impl Elem for Complex<f32> {
    const NAME: &'static str = "Complex";
    fn from_id(id: u64) -> Self {
        let a = ((id as u32) & 0x007f_ffff) | 0x3f80_0000;
        let b = (((id >> 23) as u32) & 0x007f_ffff) | 0x4000_0000;
        Complex::new(f32::from_bits(a), f32::from_bits(b))
    }
}
impl Elem for [u8; 3] {
    const NAME: &'static str = "[u8;3]";
    fn from_id(id: u64) -> Self {
        [id as u8, (id >> 8) as u8, (id >> 16) as u8]
    }
}
impl Elem for [u8; 12] {
    const NAME: &'static str = "[u8;12]";
    fn from_id(id: u64) -> Self {
        let mut r = [0u8; 12];
        r[..8].copy_from_slice(&id.to_le_bytes());
        r[8..].copy_from_slice(&(hmix(id, 1) as u32).to_le_bytes());
        r
    }
}

pub fn as_bytes<T: Copy>(s: &[T]) -> &[u8] {
    // SAFETY: all element types used are plain-old-data without padding.
    unsafe { std::slice::from_raw_parts(s.as_ptr() as *const u8, std::mem::size_of_val(s)) }
}

/// Access path to a ring: directly, or through the stream pair.
pub enum Ring<T: Copy> {
    Raw(Arc<Buffer<T>>),
    Stream(WriteStream<T>, ReadStream<T>),
}

impl<T: Copy> Ring<T> {
    pub fn raw(size: usize) -> Result<Self, String> {
        Buffer::new(size)
            .map(|b| Ring::Raw(Arc::new(b)))
            .map_err(|e| format!("{e}"))
    }
    pub fn stream(size: usize) -> Self {
        crate::rec::stream_size(size);
        let (w, r) = new_stream();
        crate::rec::stream_size(0);
        Ring::Stream(w, r)
    }
    pub fn write_buf(&self) -> Result<BufferWriter<T>, String> {
        match self {
            Ring::Raw(b) => b.clone().write_buf(),
            Ring::Stream(w, _) => w.write_buf(),
        }
        .map_err(|e| format!("{e}"))
    }
    pub fn read_buf(&self) -> Result<(BufferReader<T>, Vec<Tag>), String> {
        match self {
            Ring::Raw(b) => b.clone().read_buf(),
            Ring::Stream(_, r) => r.read_buf(),
        }
        .map_err(|e| format!("{e}"))
    }
    pub fn free(&self) -> usize {
        match self {
            Ring::Raw(b) => b.free(),
            Ring::Stream(w, _) => w.free(),
        }
    }
    pub fn total_size(&self) -> usize {
        match self {
            Ring::Raw(b) => b.total_size(),
            Ring::Stream(_, r) => r.total_size(),
        }
    }
    pub fn path(&self) -> &'static str {
        match self {
            Ring::Raw(_) => "raw",
            Ring::Stream(..) => "stream",
        }
    }
}

#[derive(Clone, Debug, PartialEq)]
pub struct MTag {
    pub key: String,
    pub val: TagValue,
}

fn tv_repr(v: &TagValue) -> String {
    match v {
        TagValue::Float(f) => format!("F{:08x}", f.to_bits()),
        other => format!("{other:?}"),
    }
}

#[derive(Clone, Copy, Debug, PartialEq)]
pub enum Gen {
    Random,
    Walker,
    Boundary,
}

pub struct Cfg {
    pub tags_mode: bool, // C02: tag-heavy generator and tag oracle.
    pub ops: usize,
    pub generator: Gen,
}

struct Hist<T: Elem> {
    ring: Ring<T>,
    cap: usize,
    model: VecDeque<(T, Vec<MTag>)>,
    next_id: u64,
    produced: u64,
    consumed: u64,
    w: Option<(BufferWriter<T>, usize)>, // window, samples filled
    wfilled: Vec<T>,
    r: Option<(BufferReader<T>, Vec<u8>)>, // window, snapshot of content
    trace: Vec<String>,
}

pub struct Outcome {
    pub violation: Option<(String, String)>,
    pub ops_done: usize,
    pub trace: Vec<String>,
}

fn mk_tagval(rng: &mut Rng, id: u64) -> TagValue {
    match rng.below(4) {
        0 => TagValue::String(format!("s{id}")),
        1 => {
            // include NaN payloads and specials now and then
            let f = match rng.below(8) {
                0 => f32::NAN,
                1 => f32::from_bits(0x7fc0_0000 | (id as u32 & 0xffff)),
                2 => f32::INFINITY,
                3 => -0.0,
                _ => id as f32 * 0.5,
            };
            TagValue::Float(f)
        }
        2 => TagValue::Bool(id & 1 == 1),
        _ => TagValue::U64(id.wrapping_mul(0x9E37_79B9_7F4A_7C15)),
    }
}

impl<T: Elem> Hist<T> {
    fn wpos(&self) -> usize {
        (self.produced % self.cap as u64) as usize
    }
    fn rpos(&self) -> usize {
        (self.consumed % self.cap as u64) as usize
    }
    fn log(&mut self, s: String) {
        if self.trace.len() >= 60 {
            self.trace.remove(0);
        }
        self.trace.push(s);
    }

    fn check_held_reader(&self) -> Result<(), (String, String)> {
        if let Some((r, snap)) = &self.r {
            if as_bytes(r.slice()) != &snap[..] {
                return Err((
                    "held-read-window-changed".into(),
                    "a read window held open showed different samples after operations of the writer".into(),
                ));
            }
        }
        Ok(())
    }

    /// Open a read window and compare with the model.
    fn open_read(&mut self, cfg: &Cfg, rep: &mut Report) -> Result<(), (String, String)> {
        let (r, tags) = self.ring.read_buf().map_err(|e| ("read_buf-error".to_string(), e))?;
        rep.count("read_windows", 1);
        if r.len() != self.model.len() {
            return Err((
                "read-window-length".into(),
                format!(
                    "read window has {} samples, model holds {} (rpos {} wpos {} cap {})",
                    r.len(),
                    self.model.len(),
                    self.rpos(),
                    self.wpos(),
                    self.cap
                ),
            ));
        }
        let expect: Vec<T> = self.model.iter().map(|e| e.0).collect();
        if as_bytes(r.slice()) != as_bytes(&expect) {
            let got = r.slice();
            let first = (0..expect.len())
                .find(|&i| as_bytes(&got[i..i + 1]) != as_bytes(&expect[i..i + 1]))
                .unwrap_or(0);
            return Err((
                "read-window-content".into(),
                format!(
                    "read window differs from committed-and-unconsumed samples at index {first} of {} (rpos {} wpos {} cap {})",
                    expect.len(),
                    self.rpos(),
                    self.wpos(),
                    self.cap
                ),
            ));
        }
        if r.len() > 0 && self.rpos() + r.len() > self.cap {
            rep.count("read_windows_across_wrap", 1);
        }
        if cfg.tags_mode {
            // Expected: tags of the samples in the window, window-relative.
            let mut exp: Vec<(usize, String, String)> = Vec::new();
            for (i, (_, ts)) in self.model.iter().enumerate() {
                for t in ts {
                    exp.push((i, t.key.clone(), tv_repr(&t.val)));
                }
            }
            let got: Vec<(usize, String, String)> = tags
                .iter()
                .map(|t| (t.pos(), t.key().to_string(), tv_repr(t.val())))
                .collect();
            rep.count("tags_observed", got.len() as u64);
            if got != exp {
                let mut g = got.clone();
                let mut e = exp.clone();
                g.sort();
                e.sort();
                let class = if g == e {
                    "tag-order-within-sample"
                } else if got.len() < exp.len() {
                    "tag-missing"
                } else if got.len() > exp.len() {
                    "tag-extra"
                } else {
                    "tag-wrong"
                };
                let missing: Vec<_> = exp.iter().filter(|x| !got.contains(x)).take(3).collect();
                let extra: Vec<_> = got.iter().filter(|x| !exp.contains(x)).take(3).collect();
                return Err((
                    class.into(),
                    format!(
                        "read window of {} samples: expected {} tags, got {}; missing e.g. {:?}; unexpected e.g. {:?}",
                        r.len(),
                        exp.len(),
                        got.len(),
                        missing,
                        extra
                    ),
                ));
            }
        }
        let snap = as_bytes(r.slice()).to_vec();
        self.r = Some((r, snap));
        Ok(())
    }

    fn open_write(&mut self, rep: &mut Report) -> Result<(), (String, String)> {
        let w = self.ring.write_buf().map_err(|e| ("write_buf-error".to_string(), e))?;
        rep.count("write_windows", 1);
        let free = self.cap - self.model.len();
        if w.len() != free {
            return Err((
                "write-window-length".into(),
                format!(
                    "write window offers {} samples, model has {} free of {}",
                    w.len(),
                    free,
                    self.cap
                ),
            ));
        }
        self.w = Some((w, 0));
        self.wfilled.clear();
        Ok(())
    }

    fn fill(&mut self, k: usize) {
        if let Some((w, filled)) = &mut self.w {
            let k = std::cmp::min(k, w.len());
            let s = w.slice();
            self.wfilled.clear();
            for slot in s.iter_mut().take(k) {
                let v = T::from_id(self.next_id);
                self.next_id += 1;
                *slot = v;
                self.wfilled.push(v);
            }
            *filled = k;
        }
    }

    fn commit(&mut self, n: usize, rng: &mut Rng, cfg: &Cfg, rep: &mut Report) {
        let (w, filled) = self.w.take().expect("commit without window");
        assert!(n <= filled);
        // Tags.
        let mut tags: Vec<Tag> = Vec::new();
        let mut mtags: Vec<Vec<MTag>> = vec![Vec::new(); n];
        let mut list: Vec<(usize, String, TagValue)> = Vec::new();
        if n > 0 {
            let ntagged = if cfg.tags_mode {
                match rng.below(5) {
                    0 => 0,
                    1 => 1,
                    _ => rng.range(1, 4),
                }
            } else if rng.chance(1, 6) {
                1
            } else {
                0
            };
            let wpos = self.wpos();
            for _ in 0..ntagged {
                // Bias positions: first, last, either side of the wrap point.
                let pos = match rng.below(6) {
                    0 => 0,
                    1 => n - 1,
                    2 if wpos + n > self.cap && self.cap - wpos >= 1 => self.cap - wpos - 1,
                    3 if wpos + n > self.cap && self.cap - wpos < n => self.cap - wpos,
                    _ => rng.below(n),
                };
                let cnt = if cfg.tags_mode && rng.chance(1, 3) {
                    rng.range(2, 6)
                } else {
                    1
                };
                for _ in 0..cnt {
                    let id = self.next_id;
                    self.next_id += 1;
                    let val = mk_tagval(rng, id);
                    let key = format!("k{id}");
                    list.push((pos, key, val));
                    if wpos + pos == self.cap - 1 || wpos + pos == self.cap {
                        rep.count("tags_adjacent_to_wrap", 1);
                    }
                }
            }
            if cfg.tags_mode && !list.is_empty() && rng.chance(1, 4) {
                // The same key and value twice on one sample (tags are a multiset:
                // both copies have to come out).
                let twin = list[rng.below(list.len())].clone();
                list.push(twin);
                rep.count("twin_tags_committed", 1);
            }
            if cfg.tags_mode && rng.chance(1, 3) {
                // Tags of samples that are not part of this commit (blocks pass the
                // tags of their whole window while committing part of it): they
                // must never be delivered. The writer's list has no required order.
                for _ in 0..rng.range(1, 3) {
                    let id = self.next_id;
                    self.next_id += 1;
                    let pos = n + rng.below(filled - n + 3);
                    list.push((pos, format!("beyond{id}"), mk_tagval(rng, id)));
                    rep.count("tags_beyond_the_commit_passed", 1);
                }
            }
            if cfg.tags_mode && rng.chance(1, 2) {
                rng.shuffle(&mut list);
                rep.count("commits_with_shuffled_tag_list", 1);
            }
            for (pos, key, val) in list {
                tags.push(Tag::new(pos, key.clone(), val.clone()));
                if pos < n {
                    mtags[pos].push(MTag { key, val });
                    rep.max("tags_per_sample", mtags[pos].len() as u64);
                }
            }
        }
        rep.count("tags_committed", tags.iter().filter(|t| t.pos() < n).count() as u64);
        let wpos = self.wpos();
        let crossed = n > 0 && wpos + n > self.cap;
        if crossed {
            rep.count("commits_across_wrap", 1);
        }
        if n == self.cap {
            rep.count("full_capacity_commits", 1);
            if wpos != 0 {
                rep.count("full_capacity_commits_at_nonzero_offset", 1);
            }
        }
        let h = fnv_str(&format!(
            "{}|{}|{}|{}|{}",
            T::NAME,
            self.cap,
            wpos,
            crossed,
            !self.model.is_empty()
        ));
        rep.distinct(h);
        self.log(format!("commit n={n} of filled={filled} tags={} at wpos={wpos}", tags.len()));
        w.produce(n, &tags);
        for (i, ts) in mtags.into_iter().enumerate() {
            self.model.push_back((self.wfilled[i], ts));
        }
        self.produced += n as u64;
        rep.count("samples_committed", n as u64);
    }

    fn consume(&mut self, m: usize, rep: &mut Report) {
        let (r, _) = self.r.take().expect("consume without window");
        assert!(m <= r.len());
        self.log(format!("consume m={m} of window={} at rpos={}", r.len(), self.rpos()));
        if m == 0 {
            rep.count("consume_zero", 1);
        }
        let rpos = self.rpos();
        if m > 0 && rpos + m >= self.cap {
            rep.count("consumes_reaching_wrap", 1);
        }
        r.consume(m);
        for _ in 0..m {
            self.model.pop_front();
        }
        self.consumed += m as u64;
        rep.count("samples_consumed", m as u64);
    }

    fn check_counts(&mut self, rep: &mut Report) -> Result<(), (String, String)> {
        let free = self.ring.free();
        let total = self.ring.total_size();
        rep.count("free_queries", 1);
        if total != self.cap {
            return Err(("total-size".into(), format!("total_size() = {total}, capacity {}", self.cap)));
        }
        if free != self.cap - self.model.len() {
            return Err((
                "free-count".into(),
                format!("free() = {free}, model: {} of {} used", self.model.len(), self.cap),
            ));
        }
        Ok(())
    }
}

fn pick_amount(rng: &mut Rng, max: usize, g: Gen, cap: usize, step: usize) -> usize {
    if max == 0 {
        return 0;
    }
    match g {
        Gen::Random => match rng.below(10) {
            0 => 0,
            1 => max,
            2 => 1,
            3 => max.saturating_sub(1),
            4 | 5 => rng.range(0, std::cmp::min(max, 16)),
            _ => rng.range(0, max),
        },
        Gen::Walker => std::cmp::min(max, if rng.chance(1, 12) { cap } else { step }),
        Gen::Boundary => *rng.pick(&[0, 1, max.saturating_sub(1), max, std::cmp::min(max, cap - 1), std::cmp::min(max, cap)]),
    }
}

/// Run one history on a fresh ring. Returns the first violation, if any.
pub fn run_history<T: Elem>(
    ring: Ring<T>,
    cfg: &Cfg,
    rng: &mut Rng,
    rep: &mut Report,
) -> Outcome {
    let cap = ring.total_size();
    let mut h = Hist {
        ring,
        cap,
        model: VecDeque::new(),
        next_id: rng.next() & 0xffff_ffff,
        produced: 0,
        consumed: 0,
        w: None,
        wfilled: Vec::new(),
        r: None,
        trace: Vec::new(),
    };
    // Walker step co-prime to capacity.
    let step = {
        let mut s = rng.range(1, std::cmp::max(2, cap / 2)) | 1;
        while gcd(s, cap) != 1 {
            s += 2;
        }
        s
    };
    let mut done = 0;
    let mut res: Option<(String, String)> = None;
    let g = cfg.generator;
    while done < cfg.ops {
        done += 1;
        rep.count("ops", 1);
        let op = rng.below(100);
        let r = (|| -> Result<(), (String, String)> {
            h.check_held_reader()?;
            match op {
                // writer side
                0..=44 => {
                    if h.w.is_none() {
                        h.open_write(rep)?;
                        if h.r.is_none() && rng.chance(1, 4) {
                            // conservation: readable + writable == capacity
                            let wl = h.w.as_ref().unwrap().0.len();
                            h.open_read(cfg, rep)?;
                            let rl = h.r.as_ref().unwrap().0.len();
                            rep.count("conservation_checks", 1);
                            if wl + rl != h.cap {
                                return Err((
                                    "conservation".into(),
                                    format!("readable {rl} + writable {wl} != capacity {}", h.cap),
                                ));
                            }
                        }
                    }
                    let wl = h.w.as_ref().unwrap().0.len();
                    let k = pick_amount(rng, wl, g, cap, step);
                    h.fill(k);
                    if rng.chance(1, 5) {
                        // Leave the window open across reader operations.
                        return Ok(());
                    }
                    let n = if rng.chance(3, 4) { k } else { rng.range(0, k) };
                    h.commit(n, rng, cfg, rep);
                }
                45..=49 => {
                    // commit a window left open earlier, or drop it uncommitted
                    if let Some((_, filled)) = &h.w {
                        let filled = *filled;
                        if rng.chance(1, 6) {
                            h.w = None;
                            h.log("write window dropped uncommitted".into());
                            rep.count("write_windows_dropped", 1);
                        } else {
                            let n = if rng.chance(3, 4) { filled } else { rng.range(0, filled) };
                            h.commit(n, rng, cfg, rep);
                        }
                    }
                }
                // reader side
                50..=92 => {
                    if h.r.is_none() {
                        h.open_read(cfg, rep)?;
                    }
                    if rng.chance(1, 5) {
                        return Ok(()); // keep window open
                    }
                    let rl = h.r.as_ref().unwrap().0.len();
                    let m = if cfg.tags_mode && rng.chance(1, 8) {
                        0
                    } else {
                        pick_amount(rng, rl, g, cap, step)
                    };
                    h.consume(m, rep);
                }
                93..=95 => {
                    if h.r.is_some() && rng.chance(1, 2) {
                        h.r = None;
                        h.log("read window dropped unconsumed".into());
                        rep.count("read_windows_dropped", 1);
                    }
                }
                _ => {
                    h.check_counts(rep)?;
                }
            }
            Ok(())
        })();
        if let Err(e) = r {
            res = Some(e);
            break;
        }
    }
    // Final: everything committed must still be readable, in order.
    if res.is_none() {
        h.w = None;
        h.r = None;
        if let Err(e) = h.open_read(cfg, rep) {
            res = Some(e);
        } else if let Err(e) = h.check_counts(rep) {
            res = Some(e);
        }
    }
    // Refusal of over-large commit / consume (ends the history: a refused
    // operation may leave the stream's lock poisoned, which is a refusal too).
    if res.is_none() && !cfg.tags_mode {
        h.r = None;
        h.w = None;
        let over = rng.range(1, 3);
        let which = rng.below(3);
        let used = h.model.len();
        let free = cap - used;
        rep.count("illegal_ops", 1);
        let ring = &h.ring;
        let out = catch(|| {
            if which == 2 {
                // writing past the window through the copy helper: the samples behind
                // the window are committed, unread ones
                let mut w = ring.write_buf().unwrap();
                let src: Vec<T> = (0..w.len() + over).map(|i| T::from_id(0xF111 + i as u64)).collect();
                w.fill_from_slice(&src);
            } else if which == 0 {
                let w = ring.write_buf().unwrap();
                let window = w.len();
                w.produce(window + over, &[]);
            } else {
                let (r, _) = ring.read_buf().unwrap();
                r.consume(used + over);
            }
        });
        if out.is_ok() {
            res = Some((
                if which == 2 { "write-past-the-window-accepted" } else if which == 0 { "oversize-commit-accepted" } else { "oversize-consume-accepted" }.into(),
                format!(
                    "{} of {} with only {} {} returned normally",
                    if which == 2 { "fill_from_slice past the window, as a commit" } else if which == 0 { "commit" } else { "consume" },
                    if which == 0 { free + over } else { used + over },
                    if which == 0 { free } else { used },
                    if which == 0 { "free" } else { "readable" }
                ),
            ));
        } else {
            rep.count("illegal_ops_refused", 1);
            // If the stream is still usable afterwards, it must be unchanged.
            let m = &h.model;
            let after = catch(|| {
                let (r, _) = ring.read_buf().ok()?;
                let expect: Vec<T> = m.iter().map(|e| e.0).collect();
                Some(as_bytes(r.slice()) == as_bytes(&expect))
            });
            if let Ok(Some(false)) = after {
                res = Some((
                    "state-changed-by-refused-op".into(),
                    "after a refused oversize operation the readable samples differ from the model".into(),
                ));
            }
        }
    }
    Outcome {
        violation: res,
        ops_done: done,
        trace: h.trace,
    }
}

pub fn gcd(mut a: usize, mut b: usize) -> usize {
    while b != 0 {
        let t = b;
        b = a % b;
        a = t;
    }
    a
}

/// One case: (element type, size, path, generator, seed).
#[derive(Clone, Debug)]
pub struct Case {
    pub elem: &'static str,
    pub size: usize,
    pub path: &'static str,
    pub generator: Gen,
    pub ops: usize,
    pub seed: u64,
}

impl Case {
    pub fn to_json(&self) -> Value {
        json!({"elem": self.elem, "size_bytes": self.size, "path": self.path,
               "generator": format!("{:?}", self.generator), "ops": self.ops, "case_seed": self.seed.to_string()})
    }
    pub fn from_json(v: &Value) -> Option<Case> {
        let want = v["elem"].as_str()?;
        let elem = ELEMS.iter().chain(ODD_ELEMS.iter()).find(|e| **e == want)?;
        Some(Case {
            elem,
            size: v["size_bytes"].as_u64()? as usize,
            path: if v["path"].as_str()? == "raw" { "raw" } else { "stream" },
            generator: match v["generator"].as_str()? {
                "Walker" => Gen::Walker,
                "Boundary" => Gen::Boundary,
                _ => Gen::Random,
            },
            ops: v["ops"].as_u64()? as usize,
            seed: v["case_seed"].as_str()?.parse().ok()?,
        })
    }
}

pub const ELEMS: &[&str] = &["u8", "u16", "u32", "u64", "[u8;16]", "Complex"];
pub const ODD_ELEMS: &[&str] = &["[u8;3]", "[u8;12]"];

fn run_case_t<T: Elem>(c: &Case, tags_mode: bool, rep: &mut Report) -> Outcome {
    let mut rng = Rng::new(c.seed);
    let ring = if c.path == "raw" {
        match Ring::<T>::raw(c.size) {
            Ok(r) => r,
            Err(e) => {
                return Outcome {
                    violation: Some(("stream-create-failed".into(), e)),
                    ops_done: 0,
                    trace: vec![],
                };
            }
        }
    } else {
        Ring::<T>::stream(c.size)
    };
    let cfg = Cfg {
        tags_mode,
        ops: c.ops,
        generator: c.generator,
    };
    run_history(ring, &cfg, &mut rng, rep)
}

pub fn run_case(c: &Case, tags_mode: bool, rep: &mut Report) -> Outcome {
    match c.elem {
        "u8" => run_case_t::<u8>(c, tags_mode, rep),
        "u16" => run_case_t::<u16>(c, tags_mode, rep),
        "u32" => run_case_t::<u32>(c, tags_mode, rep),
        "u64" => run_case_t::<u64>(c, tags_mode, rep),
        "[u8;16]" => run_case_t::<[u8; 16]>(c, tags_mode, rep),
        "Complex" => run_case_t::<Complex<f32>>(c, tags_mode, rep),
        _ => unreachable!(),
    }
}

/// Element sizes that do not divide the buffer: creation must be refused;
/// if it is accepted, data must still never be corrupted.
fn odd_case<T: Elem>(size: usize, seed: u64, rep: &mut Report) -> Option<(String, String, Value)> {
    rep.count("nondividing_creations", 1);
    let esz = std::mem::size_of::<T>();
    match Ring::<T>::raw(size) {
        Err(_) => {
            rep.count("nondividing_refused", 1);
            None
        }
        Ok(ring) => {
            // Accepted. The property allows that only if nothing is corrupted:
            // run a walker history that crosses the wrap several times.
            let cap = ring.total_size();
            let mut rng = Rng::new(seed);
            let cfg = Cfg {
                tags_mode: false,
                ops: 400,
                generator: Gen::Walker,
            };
            let out = catch(|| run_history(ring, &cfg, &mut rng, rep));
            let c = json!({"elem": T::NAME, "size_bytes": size, "path": "raw", "generator": "Walker", "ops": 400, "case_seed": seed.to_string(), "odd": true});
            match out {
                Ok(o) => o.violation.map(|(class, d)| {
                    (
                        format!("C01|element-size-not-dividing-buffer|accepted-then-{class}"),
                        format!("Buffer::<{}>::new({size}) was accepted ({esz} does not divide {size}; capacity {cap}): {d}", T::NAME),
                        c,
                    )
                }),
                Err(p) => {
                    // A panic in a legal history is a refusal at the wrong time.
                    Some((
                        "C01|element-size-not-dividing-buffer|accepted-then-panic".to_string(),
                        format!("Buffer::<{}>::new({size}) was accepted, later legal operations panicked: {p}", T::NAME),
                        c,
                    ))
                }
            }
        }
    }
}

pub fn main(opts: &Opts, tags_mode: bool) -> Report {
    let prop = if tags_mode { "C02" } else { "C01" };
    let mut rep = Report::new(prop);
    rep.rule = if tags_mode {
        "seeded operation histories (random / walker / boundary generators) of tagged commits and consumes on one stream, every read window's tag list compared with a queue model; a case is distinct by (element type, capacity, write position, commit crossed the wrap, reader side non-empty) at a commit".into()
    } else {
        "seeded operation histories (random / walker with step co-prime to capacity / boundary amounts 0,1,cap-1,cap) on one stream through the raw buffer and through the stream pair, compared with a queue model of unique sample ids after every operation; distinct by (element type, capacity, write position, commit crossed the wrap, reader side non-empty) at a commit".into()
    };
    rep.assume("single thread; at most one read window and one write window live at a time (the documented protocol)");
    crate::rec::install(false);

    if let Some(path) = &opts.replay {
        let v: Value = serde_json::from_str(&std::fs::read_to_string(path).expect("replay file")).expect("json");
        let rv = &v["replay"];
        if rv["odd"].as_bool() == Some(true) {
            let size = rv["size_bytes"].as_u64().unwrap() as usize;
            let seed: u64 = rv["case_seed"].as_str().unwrap().parse().unwrap();
            let r = if rv["elem"] == "[u8;3]" {
                odd_case::<[u8; 3]>(size, seed, &mut rep)
            } else {
                odd_case::<[u8; 12]>(size, seed, &mut rep)
            };
            rep.eval();
            if let Some((sig, d, c)) = r {
                rep.violation(sig, d, c);
            }
            return rep;
        }
        let c = Case::from_json(rv).expect("case");
        rep.eval();
        let out = catch(|| run_case(&c, tags_mode, &mut Report::new(prop)));
        match out {
            Ok(o) => {
                if let Some((class, d)) = o.violation {
                    rep.violation(format!("{prop}|{}|{class}", c.path), format!("{d}; last ops: {:?}", o.trace), c.to_json());
                }
            }
            Err(p) => rep.violation(format!("{prop}|{}|panic-in-legal-history", c.path), p, c.to_json()),
        }
        return rep;
    }

    let mut rng = Rng::new(opts.shard_seed() ^ if tags_mode { 0xC02 } else { 0xC01 });
    let mut total_ops = opts.budget(8_000_000, 400_000_000) as usize;
    if opts.val("variant").as_deref() == Some("asan") {
        // the sanitizer build is ~5x slower: a tenth of the histories
        total_ops /= 10;
    }
    let sizes = [PAGE, PAGE, 2 * PAGE, 3 * PAGE, 8 * PAGE];
    let mut ops_done = 0usize;
    let mut case_no = 0u64;
    while ops_done < total_ops {
        case_no += 1;
        let elem = ELEMS[(case_no as usize + opts.shard) % ELEMS.len()];
        let c = Case {
            elem,
            size: *rng.pick(&sizes),
            path: if rng.chance(1, 2) { "raw" } else { "stream" },
            generator: *rng.pick(&[Gen::Random, Gen::Random, Gen::Walker, Gen::Boundary]),
            ops: rng.range(200, 3000),
            seed: rng.next(),
        };
        rep.eval();
        rep.set("element_types", c.elem);
        rep.set("sizes_bytes", c.size.to_string());
        rep.set("paths", c.path);
        rep.set("generators", format!("{:?}", c.generator));
        if rep.want_sample() {
            rep.sample(c.to_json());
        }
        let mut sub = Report::new(prop);
        let out = catch(|| run_case(&c, tags_mode, &mut sub));
        // merge counters/distinct
        for (k, v) in sub.counters {
            if let Some(k2) = k.strip_prefix("max_") {
                rep.max(k2, v);
            } else {
                rep.count(&k, v);
            }
        }
        for d in sub.distinct {
            rep.distinct(d);
        }
        match out {
            Ok(o) => {
                ops_done += o.ops_done;
                if let Some((class, d)) = o.violation {
                    rep.violation(
                        format!("{prop}|{}|{class}", c.path),
                        format!("{d}; last ops: {:?}", o.trace),
                        c.to_json(),
                    );
                }
            }
            Err(p) => {
                ops_done += c.ops;
                rep.violation(
                    format!("{prop}|{}|panic-in-legal-history|{}", c.path, sig_of_msg(&p)),
                    p,
                    c.to_json(),
                );
            }
        }
    }
    if !tags_mode {
        // Element sizes that do not divide the buffer, and non-page sizes.
        for (i, size) in [PAGE, 2 * PAGE, 8 * PAGE].iter().enumerate() {
            let seed = rng.next();
            if (i + opts.shard) % 2 == 0 {
                rep.eval();
                if let Some((sig, d, c)) = odd_case::<[u8; 3]>(*size, seed, &mut rep) {
                    rep.violation(sig, d, c);
                }
            } else {
                rep.eval();
                if let Some((sig, d, c)) = odd_case::<[u8; 12]>(*size, seed, &mut rep) {
                    rep.violation(sig, d, c);
                }
            }
        }
        rep.set("element_types", "[u8;3] (must be refused)");
        rep.set("element_types", "[u8;12] (must be refused)");
        if opts.shard % 4 == 1 || opts.nshards == 1 {
            large_rings(&mut rep, opts.shard_seed());
        }
        // Exhaustive offset sweep for one-page u32 (thorough, shard 0).
        if opts.thorough() && opts.shard == 0 {
            offset_sweep(&mut rep);
        }
    }
    rep
}

/// Rings far larger than a default stream (8 and 32 MiB): the write window is all
/// of the free space, the read window all that was committed, a commit beyond the
/// window is refused, and the samples come back (probed at both ends and at random).
fn large_rings(rep: &mut Report, seed: u64) {
    fn one<T: Elem>(rep: &mut Report, bytes: usize, rng: &mut Rng) -> Option<(String, String)> {
        let ring = match Ring::<T>::raw(bytes) {
            Ok(r) => r,
            Err(e) => {
                rep.inconclusive(format!("cannot create a {bytes}-byte ring: {e}"));
                return None;
            }
        };
        let cap = ring.total_size();
        let mut used = 0usize; // model: ids first..first+used are readable
        let mut first = 1u64;
        for round in 0..6 {
            // write
            let mut w = ring.write_buf().ok()?;
            if w.len() != cap - used {
                return Some(("large-ring-write-window".into(), format!("{}-sample ring of {} with {used} readable offers a write window of {} (free() says {})", cap, T::NAME, w.len(), ring.free())));
            }
            let a = match round {
                0 => cap,
                1 => 1,
                _ => rng.range(0, cap - used),
            };
            let a = std::cmp::min(a, cap - used);
            for (i, v) in w.slice()[..a].iter_mut().enumerate() {
                *v = T::from_id(first + (used + i) as u64);
            }
            w.produce(a, &[]);
            used += a;
            // read
            let (r, _) = ring.read_buf().ok()?;
            if r.len() != used {
                return Some(("large-ring-read-window".into(), format!("{}-sample ring of {}: {used} committed and unread, read window of {}", cap, T::NAME, r.len())));
            }
            if used > 0 {
                let mut probes = vec![0usize, used - 1, used / 2];
                for _ in 0..200 {
                    probes.push(rng.below(used));
                }
                for p in probes {
                    if as_bytes(&r.slice()[p..p + 1]) != as_bytes(&[T::from_id(first + p as u64)]) {
                        return Some(("large-ring-content".into(), format!("{}-sample ring of {}: readable sample {p} of {used} is not the one committed there", cap, T::NAME)));
                    }
                }
            }
            let c = match round {
                0 => cap / 3,
                5 => used,
                _ => rng.range(0, used),
            };
            r.consume(c);
            used -= c;
            first += c as u64;
            rep.count("large_ring_rounds", 1);
        }
        // a commit one beyond the (whole, empty-ring) window must be refused
        let refused = catch(|| {
            let w = ring.write_buf().unwrap();
            let n = w.len();
            w.produce(n + 1, &[]);
        })
        .is_err();
        if !refused {
            return Some(("large-ring-oversize-commit-accepted".into(), format!("{}-sample ring of {}: a commit of one more than the write window returned normally", cap, T::NAME)));
        }
        None
    }
    let mut rng = Rng::new(seed ^ 0xB16);
    for (bytes, which) in [(8usize << 20, 0), (32 << 20, 1), (16 << 20, 0)] {
        let f = if which == 0 { one::<u8>(rep, bytes, &mut rng) } else { one::<u32>(rep, bytes, &mut rng) };
        if let Some((class, d)) = f {
            rep.violation(format!("C01|raw|{class}"), d, json!({"part": "large-ring", "bytes": bytes}));
        }
    }
}

/// Every ring offset x amounts {0,1,cap-1,cap} for a one-page u32 stream.
fn offset_sweep(rep: &mut Report) {
    let ring = Ring::<u32>::raw(PAGE).unwrap();
    let cap = ring.total_size();
    let mut next = 1u32;
    let mut covered = 0u64;
    for off in 0..cap {
        for amt in [0usize, 1, cap - 1, cap] {
            // ring is empty and positioned at `off`
            let mut w = ring.write_buf().unwrap();
            if w.len() != cap {
                rep.violation("C01|raw|offset-sweep-window", format!("offset {off}: empty ring offers {}", w.len()), json!({"sweep_offset": off}));
                return;
            }
            let vals: Vec<u32> = (0..amt as u32).map(|i| next.wrapping_add(i)).collect();
            next = next.wrapping_add(amt as u32);
            w.slice()[..amt].copy_from_slice(&vals);
            w.produce(amt, &[]);
            let (r, _) = ring.read_buf().unwrap();
            if r.slice() != &vals[..] {
                rep.violation("C01|raw|offset-sweep-content", format!("offset {off} amount {amt}: read window differs"), json!({"sweep_offset": off, "amount": amt}));
                return;
            }
            r.consume(amt);
            // rewind position by cap-amt more so that net advance is 0 (mod cap)
            let back = (cap - amt % cap) % cap;
            let w = ring.write_buf().unwrap();
            w.produce(back, &[]);
            let (r, _) = ring.read_buf().unwrap();
            r.consume(back);
            covered += 1;
        }
        // advance by one
        let w = ring.write_buf().unwrap();
        w.produce(1, &[]);
        let (r, _) = ring.read_buf().unwrap();
        r.consume(1);
    }
    rep.count("offset_sweep_cases", covered);
    rep.set("exhaustive_families", format!("u32 one page: all {cap} offsets x amounts 0,1,cap-1,cap"));
}
