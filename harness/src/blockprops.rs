//! C08 (chunking independence), C09 (truthful verdicts), C10 (specifications),
//! C12 (tag forwarding) on the drip-feed engine.
use crate::drip::*;
use crate::duts::*;
use crate::rec;
use crate::util::*;
use serde_json::{Value, json};

/// Blocks named by the C10 statement (exactly specified); other entries keep
/// their specs for C14/C16.
pub const C10_BLOCKS: &[&str] = &[
    "AddConst<f32>", "add_const<Complex>", "MultiplyConst<f32>", "XorConst<u8>", "BinarySlicer",
    "ComplexToMag2", "NrziDecode", "Descrambler", "CorrelateAccessCode", "CorrelateAccessCodeTag",
    "Map<u32,u8>", "Tee<u8>", "Add<f32>", "Xor<u8>", "FloatToComplex", "BurstTagger<u32>", "Skip<u32>",
    "Delay<u32>", "RationalResampler<u32>", "RtlSdrDecode", "StreamToPdu<u8>", "VecToStream<u8>",
    "ToText<u32>", "VectorSource<u32>", "ConstantSource<u32>", "FftStream", "VectorSink<f32>", "NullSink<f32>",
];

#[derive(Clone, Copy, PartialEq, Debug)]
pub enum Mode {
    C08,
    C09,
    C10,
    C12,
}
impl Mode {
    fn id(&self) -> &'static str {
        match self {
            Mode::C08 => "C08",
            Mode::C09 => "C09",
            Mode::C10 => "C10",
            Mode::C12 => "C12",
        }
    }
}

#[derive(Clone, Debug)]
pub struct Case {
    pub entry: String,
    pub seed: u64,
    pub stream_bytes: usize,
    pub tagged: bool,
    pub max_len_pct: usize,
}
impl Case {
    pub fn to_json(&self) -> Value {
        json!({"entry": self.entry, "case_seed": self.seed.to_string(), "stream_bytes": self.stream_bytes,
               "tagged": self.tagged, "max_len_pct": self.max_len_pct})
    }
    pub fn from_json(v: &Value) -> Option<Case> {
        Some(Case {
            entry: v["entry"].as_str()?.to_string(),
            seed: v["case_seed"].as_str()?.parse().ok()?,
            stream_bytes: v["stream_bytes"].as_u64()? as usize,
            tagged: v["tagged"].as_bool()?,
            max_len_pct: v["max_len_pct"].as_u64()? as usize,
        })
    }
    fn ctx(&self) -> Ctx {
        Ctx {
            stream_bytes: self.stream_bytes,
            tagged: self.tagged,
            max_len_pct: self.max_len_pct,
        }
    }
}

pub struct Finding {
    pub class: String,
    pub detail: String,
}

fn situation(offered: usize, cap: usize) -> &'static str {
    if offered == 0 {
        "none"
    } else if offered >= cap {
        "all"
    } else if offered < 8 {
        "few"
    } else {
        "some"
    }
}

fn within_ulps(a: &Data, b: &Data, ulps: u32) -> bool {
    fn close(x: f32, y: f32, ulps: u32) -> bool {
        if x.to_bits() == y.to_bits() {
            return true;
        }
        if x.is_nan() || y.is_nan() {
            return false;
        }
        let tol = ulps as f32 * f32::EPSILON * x.abs().max(y.abs()).max(f32::MIN_POSITIVE);
        (x - y).abs() <= tol
    }
    match (a, b) {
        (Data::F32(x), Data::F32(y)) => x.len() == y.len() && x.iter().zip(y).all(|(p, q)| close(*p, *q, ulps)),
        (Data::C32(x), Data::C32(y)) => {
            x.len() == y.len() && x.iter().zip(y).all(|(p, q)| close(p.re, q.re, ulps) && close(p.im, q.im, ulps))
        }
        _ => a == b,
    }
}

/// C09 probe after a WaitForStream verdict: make sure the request is satisfied
/// on the named stream alone, then the block must progress or change verdict.
fn probe_wait(r: &mut Runner, call: &Call, rep: &mut Report) -> Option<Finding> {
    let Some((is_in, idx)) = call.named else {
        rep.count("waits_on_unowned_stream", 1);
        return None;
    };
    let need = call.need;
    if is_in {
        let have = r.in_buffered(idx);
        if have < need {
            let want = need - have;
            if r.dut.ins[idx].is_closed() || r.dut.ins[idx].pending() < want || r.dut.ins[idx].free() < want {
                rep.count("wait_probes_unsatisfiable", 1);
                return None;
            }
            r.feed(idx, want);
        } else {
            rep.count("waits_already_satisfied", 1);
        }
    } else {
        let free = r.dut.outs[idx].free();
        if free < need {
            if need > r.dut.outs[idx].capacity() {
                rep.count("wait_probes_unsatisfiable", 1);
                return None;
            }
            r.drain(idx, need - free);
        } else {
            rep.count("waits_already_satisfied", 1);
        }
    }
    rep.count("wait_probes", 1);
    for _ in 0..3 {
        if r.dead {
            return None;
        }
        let c2 = r.work();
        if c2.moved_any() || c2.verdict != call.verdict || c2.named != call.named || c2.need != call.need {
            return None;
        }
    }
    Some(Finding {
        class: format!("wait-not-unblocked({})", if is_in { "input" } else { "output" }),
        detail: format!(
            "work() answered WaitForStream({}{idx}, {need}); with that request satisfied on that stream alone, 3 further calls moved nothing and gave the same verdict",
            if is_in { "in" } else { "out" }
        ),
    })
}

fn probe_spin(r: &mut Runner, rep: &mut Report) -> Option<Finding> {
    rep.count("spin_probes", 1);
    for _ in 0..8 {
        if r.dead {
            return None;
        }
        let c = r.work();
        if c.verdict != Verdict::Again || c.moved_any() {
            return None;
        }
    }
    Some(Finding {
        class: "idle-spin".into(),
        detail: "9 consecutive work() calls returned Again without consuming, producing or any stream event".into(),
    })
}

fn tag_diff(got: &[OutTag], exp: &[OutTag]) -> Option<(String, String)> {
    let mut g = got.to_vec();
    g.sort();
    let mut e = exp.to_vec();
    e.sort();
    if g == e {
        return None;
    }
    // classify
    use std::collections::BTreeMap;
    let mut gk: BTreeMap<(&str, &str), Vec<u64>> = BTreeMap::new();
    for t in &g {
        gk.entry((&t.key, &t.val)).or_default().push(t.pos);
    }
    let mut ek: BTreeMap<(&str, &str), Vec<u64>> = BTreeMap::new();
    for t in &e {
        ek.entry((&t.key, &t.val)).or_default().push(t.pos);
    }
    let mut dup = 0;
    let mut missing = 0;
    let mut moved = 0;
    let mut extra = 0;
    let mut ex = Vec::new();
    for (k, ep) in &ek {
        match gk.get(k) {
            None => {
                missing += 1;
                if ex.len() < 4 {
                    ex.push(format!("{}: expected at {:?}, absent", k.0, ep));
                }
            }
            Some(gp) => {
                if gp.len() > ep.len() {
                    dup += 1;
                    if ex.len() < 4 {
                        ex.push(format!("{}: expected at {:?}, seen at {:?}", k.0, ep, gp));
                    }
                } else if gp.len() < ep.len() {
                    missing += 1;
                    if ex.len() < 4 {
                        ex.push(format!("{}: expected at {:?}, seen at {:?}", k.0, ep, gp));
                    }
                } else if gp != ep {
                    moved += 1;
                    if ex.len() < 4 {
                        ex.push(format!("{}: expected at {:?}, seen at {:?}", k.0, ep, gp));
                    }
                }
            }
        }
    }
    for (k, gp) in &gk {
        if !ek.contains_key(k) {
            extra += 1;
            if ex.len() < 4 {
                ex.push(format!("{}: unexpected at {:?}", k.0, gp));
            }
        }
    }
    let class = if dup > 0 {
        "tag-duplicated"
    } else if moved > 0 {
        "tag-misplaced"
    } else if missing > 0 {
        "tag-lost"
    } else if extra > 0 {
        "tag-unexpected"
    } else {
        "tag-mismatch"
    };
    Some((
        class.to_string(),
        format!("{} tags expected, {} seen; duplicated {dup}, misplaced {moved}, lost {missing}, unexpected {extra}; e.g. {}", e.len(), g.len(), ex.join("; ")),
    ))
}

/// Run one case; returns findings (class, detail).
pub fn run_case(c: &Case, mode: Mode, rep: &mut Report) -> Vec<Finding> {
    let e = entry(&c.entry).expect("entry");
    let ctx = c.ctx();
    let mut findings: Vec<Finding> = Vec::new();
    rep.count(&format!("cases:{}", e.name), 1);

    // Reference run: default streams, all input at once.
    rec::stream_size(0);
    let mut rng_a = Rng::new(c.seed);
    let built_ref = (e.build)(&mut rng_a, &ctx);
    let inputs: Vec<Data> = built_ref.dut.ins.iter().map(|p| p.data()).collect();
    let in_tags: Vec<Vec<InTag>> = built_ref.dut.ins.iter().map(|p| p.tags().to_vec()).collect();
    let params = built_ref.dut.params.clone();
    let spec_out = built_ref.spec.as_ref().map(|s| s(&inputs));
    let spec_ulps = built_ref.spec_ulps;
    let mut rr = Runner::new(built_ref.dut);
    let ok = run_reference(&mut rr);
    let ref_out = rr.outputs();
    let ref_tags = rr.out_tags();
    let ref_dead = rr.dead;
    if !ok {
        rep.inconclusive(format!("{}: reference run did not settle within the call budget", e.name));
    }
    if ref_dead {
        let last = rr.last_calls.last().cloned();
        if let Some(l) = last {
            if l.verdict == Verdict::Panic && mode == Mode::C08 {
                findings.push(Finding {
                    class: format!("panic|{}", sig_of_msg(l.msg.as_deref().unwrap_or(""))),
                    detail: format!("work() panicked in the one-shot reference run: {:?}; params {params}", l.msg),
                });
            }
        }
    }
    rep.count("work_calls", rr.calls);
    drop(rr);

    // Scheduled run: small streams, adversarial schedule.
    rec::stream_size(c.stream_bytes);
    let mut rng_b = Rng::new(c.seed);
    let built = (e.build)(&mut rng_b, &ctx);
    rec::stream_size(0);
    let tagspec = built.tagspec;
    let keeps_history = built.dut.keeps_history;
    let n_ins = built.dut.ins.len();
    let mut r = Runner::new(built.dut);
    // All four properties are also exercised with the harness acting as the
    // concurrently running neighbour blocks inside work() calls (see drip.rs).
    r.interpose = Some(Rng::new(hmix(c.seed, 0x1E16)));
    let mut srng = Rng::new(hmix(c.seed, 0x5C4ED));
    let mut steps = Vec::new();
    let mut prefix_bad: Option<Finding> = None;
    let mut c09: Vec<Finding> = Vec::new();
    let name = e.name;
    {
        let ref_out_ref = &ref_out;
        let mut on_call = |r: &mut Runner, call: &Call, _rng: &mut Rng| {
            // situations visited
            let si: Vec<&str> = call.offered_in.iter().enumerate().map(|(i, &n)| situation(n, r.dut.ins[i].capacity())).collect();
            let so: Vec<&str> = call.offered_out.iter().enumerate().map(|(o, &n)| situation(n, r.dut.outs[o].capacity())).collect();
            rep.distinct(fnv_str(&format!("{name}|{si:?}|{so:?}|{:?}|{:?}", call.verdict, call.named)));
            if call.interposed > 0 {
                rep.count("calls_with_neighbour_activity_inside", 1);
                rep.count("neighbour_actions_inside_calls", call.interposed as u64);
            }
            if mode != Mode::C09 {
                return;
            }
            if c09.len() >= 4 {
                return;
            }
            if let Some(w) = &call.window_overrun {
                c09.push(Finding { class: "committed-more-than-its-window".into(), detail: w.clone() });
            }
            // With neighbour activity inside the call the amounts offered before it
            // are stale; the window rule above is the exact form of the same bound.
            for i in 0..call.moved_in.len() {
                if call.interposed > 0 {
                    break;
                }
                if call.moved_in[i] > call.offered_in[i] {
                    c09.push(Finding { class: "consumed-more-than-offered".into(), detail: format!("input {i}: consumed {} of {} offered", call.moved_in[i], call.offered_in[i]) });
                }
            }
            for o in 0..call.moved_out.len() {
                if call.interposed > 0 {
                    break;
                }
                if call.moved_out[o] > call.offered_out[o] {
                    c09.push(Finding { class: "produced-more-than-offered".into(), detail: format!("output {o}: produced {} into {} free", call.moved_out[o], call.offered_out[o]) });
                }
            }
            if call.windows_leaked {
                c09.push(Finding { class: "window-held-after-return".into(), detail: format!("handles after return: in {:?} out {:?}", call.handles_in, call.handles_out) });
            }
            match call.verdict {
                Verdict::WaitStream => {
                    if let Some(f) = probe_wait(r, call, rep) {
                        c09.push(f);
                    }
                }
                Verdict::Again if !call.moved_any() => {
                    if let Some(f) = probe_spin(r, rep) {
                        c09.push(f);
                    }
                }
                _ => {}
            }
        };
        let mut on_drain = |r: &Runner| {
            if mode != Mode::C08 || prefix_bad.is_some() {
                return;
            }
            for (o, port) in r.dut.outs.iter().enumerate() {
                let got = port.collected();
                if !got.is_prefix_of(&ref_out_ref[o]) {
                    let at = got.first_diff(&ref_out_ref[o]).unwrap_or(0);
                    prefix_bad = Some(Finding {
                        class: "output-differs".into(),
                        detail: format!(
                            "output {o} drained so far ({} items) is not a prefix of the one-shot output ({} items): first difference at {at}: scheduled {} vs one-shot {}",
                            got.len(),
                            ref_out_ref[o].len(),
                            got.describe(at),
                            ref_out_ref[o].describe(at)
                        ),
                    });
                }
            }
        };
        let settled = run_schedule(&mut r, &mut srng, &mut on_call, &mut on_drain, &mut steps);
        if !settled {
            rep.inconclusive(format!("{}: scheduled run did not settle within the call budget", e.name));
        }
    }
    rep.count("work_calls", r.calls);
    rep.count("schedule_steps", steps.len() as u64);
    let sched_out = r.outputs();
    let sched_tags = r.out_tags();
    let out_lens: Vec<usize> = sched_out.iter().map(|d| d.len()).collect();

    let describe = |r: &Runner| -> String {
        format!(
            "params {params}; stream {} bytes; inputs {:?}; last calls {}",
            c.stream_bytes,
            inputs.iter().map(|d| format!("{}x{}", d.len(), d.kind())).collect::<Vec<_>>(),
            r.describe_last_calls()
        )
    };

    match mode {
        Mode::C08 => {
            if r.dead {
                if let Some(l) = r.last_calls.last() {
                    match l.verdict {
                        Verdict::Panic => findings.push(Finding {
                            class: format!("panic|{}", sig_of_msg(l.msg.as_deref().unwrap_or(""))),
                            detail: format!("work() panicked: {:?}; {}", l.msg, describe(&r)),
                        }),
                        Verdict::Err if !ref_dead => findings.push(Finding {
                            class: "error-only-when-chunked".into(),
                            detail: format!("work() returned Err({:?}) in the scheduled run but not one-shot; {}", l.msg, describe(&r)),
                        }),
                        _ => {}
                    }
                }
            } else if let Some(f) = prefix_bad {
                findings.push(Finding { class: f.class, detail: format!("{}; {}", f.detail, describe(&r)) });
            } else if !ref_dead {
                for o in 0..sched_out.len() {
                    // A source that never ends is cut off at an arbitrary point in
                    // both runs: only the common prefix is comparable.
                    if n_ins == 0 && (sched_out[o].is_prefix_of(&ref_out[o]) || ref_out[o].is_prefix_of(&sched_out[o])) {
                        continue;
                    }
                    if let Some(at) = sched_out[o].first_diff(&ref_out[o]) {
                        findings.push(Finding {
                            class: if sched_out[o].len() != ref_out[o].len() && at >= std::cmp::min(sched_out[o].len(), ref_out[o].len()) {
                                "output-length-differs".into()
                            } else {
                                "output-differs".into()
                            },
                            detail: format!(
                                "output {o}: scheduled run gave {} items, one-shot {}; first difference at {at}: scheduled {} vs one-shot {}; {}",
                                sched_out[o].len(),
                                ref_out[o].len(),
                                sched_out[o].describe(at),
                                ref_out[o].describe(at),
                                describe(&r)
                            ),
                        });
                        break;
                    }
                }
            }
        }
        Mode::C09 => {
            for f in c09 {
                findings.push(Finding { class: f.class, detail: format!("{}; {}", f.detail, describe(&r)) });
            }
            // (5) retirement: inputs closed and everything drained.
            if !r.dead && n_ins > 0 {
                let mut retired = false;
                let mut verdicts = Vec::new();
                for _ in 0..8 {
                    for o in 0..r.dut.outs.len() {
                        r.drain(o, usize::MAX / 4);
                    }
                    let cl = r.work();
                    verdicts.push(format!("{:?}{:?}", cl.verdict, cl.named));
                    let ret = match cl.verdict {
                        Verdict::Eof => true,
                        // A runner retires the block if the named input has ended and cannot
                        // satisfy the request any more (MTGraph: `wait(need)` answers "never"
                        // only when fewer than `need` samples are left) or `eof()` says so.
                        Verdict::WaitStream => match cl.named {
                            Some((true, i)) if cl.named_closed => cl.need > r.in_buffered(i) || r.dut.block.eof(),
                            _ => false,
                        },
                        Verdict::WaitFunc => r.dut.block.eof(),
                        _ => false,
                    };
                    if ret || r.dead {
                        retired = true;
                        break;
                    }
                }
                rep.count("retirement_checks", 1);
                if !retired {
                    let left: Vec<usize> = (0..n_ins).map(|i| r.in_buffered(i)).collect();
                    let _ = keeps_history;
                    findings.push(Finding {
                        class: "no-retirement".into(),
                        detail: format!("all inputs ended (left in inputs: {left:?}), outputs drained: 8 calls gave {verdicts:?} - neither EOF nor a wait on an ended input for more than it still holds; {}", describe(&r)),
                    });
                }
            }
        }
        Mode::C10 => {
            if e.name == "NullSink<f32>" && !r.dead {
                // "discard anything written": everything fed must have been consumed
                rep.count("spec_comparisons", 1);
                let left = r.in_buffered(0);
                if left != 0 || r.dut.ins[0].pending() != 0 {
                    findings.push(Finding { class: "chunked-output-differs-from-spec".into(), detail: format!("NullSink left {left} samples unconsumed; {}", describe(&r)) });
                }
            }
            if let Some(spec) = spec_out.as_ref().filter(|_| C10_BLOCKS.contains(&e.name)) {
                rep.count("spec_comparisons", 1);
                rep.count("samples_compared", spec.iter().map(|d| d.len() as u64).sum());
                for (which, outs, dead) in [("one-shot", &ref_out, ref_dead), ("chunked", &sched_out, r.dead)] {
                    if dead {
                        findings.push(Finding { class: format!("{which}-run-died"), detail: format!("block panicked or returned Err during the {which} run; {}", describe(&r)) });
                        continue;
                    }
                    for o in 0..spec.len() {
                        if e.name == "ConstantSource<u32>" {
                            // every emitted sample equals the configured value
                            if let (Data::U32(got), Data::U32(want)) = (&outs[o], &spec[o]) {
                                if got.is_empty() || got.iter().any(|x| *x != want[0]) {
                                    findings.push(Finding { class: format!("{which}-output-differs-from-spec"), detail: format!("ConstantSource emitted {} samples, not all equal to {}; {}", got.len(), want[0], describe(&r)) });
                                }
                            }
                            continue;
                        }
                        if e.name == "FftStream" {
                            // f32 FFT against the f64 DFT: |err| <= 64*u*log2(2N)*|x_block|_2 per element
                            if let (Data::C32(got), Data::C32(want), Data::C32(inp)) = (&outs[o], &spec[o], &inputs[0]) {
                                let size = params["size"].as_u64().unwrap_or(1) as usize;
                                let mut bad = got.len() != want.len();
                                if !bad {
                                    for (k, (g, w)) in got.iter().zip(want.iter()).enumerate() {
                                        let b = k / size;
                                        let norm: f64 = inp[b * size..(b + 1) * size].iter().map(|x| x.norm_sqr() as f64).sum::<f64>().sqrt();
                                        let bound = 64.0 * 5.96e-8 * ((2 * size) as f64).log2() * norm + 1e-30;
                                        let err = ((g.re as f64 - w.re as f64).powi(2) + (g.im as f64 - w.im as f64).powi(2)).sqrt();
                                        if !(err <= bound) {
                                            bad = true;
                                            break;
                                        }
                                    }
                                }
                                if bad {
                                    findings.push(Finding { class: format!("{which}-output-differs-from-spec"), detail: format!("FftStream: {} outputs vs {} expected (whole blocks of {size}, each the forward DFT of its input block); {}", got.len(), want.len(), describe(&r)) });
                                }
                            }
                            continue;
                        }
                        if !within_ulps(&outs[o], &spec[o], spec_ulps) {
                            let at = outs[o].first_diff(&spec[o]).unwrap_or(0);
                            // Delay with empty input: zeros may legitimately not be flushed.
                            findings.push(Finding {
                                class: format!("{which}-output-differs-from-spec"),
                                detail: format!(
                                    "output {o} ({which}): block gave {} items, specification {}; first difference at {at}: block {} vs spec {}; {}",
                                    outs[o].len(),
                                    spec[o].len(),
                                    outs[o].describe(at),
                                    spec[o].describe(at),
                                    describe(&r)
                                ),
                            });
                            break;
                        }
                    }
                }
            }
        }
        Mode::C12 => {
            if let Some(ts) = &tagspec {
                if !r.dead && !ref_dead {
                    let exp = ts(&in_tags, &inputs, &out_lens);
                    rep.count("tag_comparisons", 1);
                    rep.count("tags_injected", in_tags.iter().map(|t| t.len() as u64).sum());
                    rep.count("tags_observed", sched_tags.iter().map(|t| t.len() as u64).sum());
                    for o in 0..exp.len() {
                        if let Some((class, d)) = tag_diff(&sched_tags[o], &exp[o]) {
                            findings.push(Finding { class, detail: format!("output {o} (chunked run): {d}; {}", describe(&r)) });
                            break;
                        }
                    }
                    // one-shot run as well
                    let ref_lens: Vec<usize> = ref_out.iter().map(|d| d.len()).collect();
                    let exp1 = ts(&in_tags, &inputs, &ref_lens);
                    for o in 0..exp1.len() {
                        if let Some((class, d)) = tag_diff(&ref_tags[o], &exp1[o]) {
                            findings.push(Finding { class: format!("one-shot-{class}"), detail: format!("output {o} (one-shot run): {d}; params {params}") });
                            break;
                        }
                    }
                }
            }
        }
    }
    if rep.want_sample() {
        rep.sample(json!({"case": c.to_json(), "params": params,
            "schedule_head": steps.iter().take(12).map(|s| format!("{s:?}")).collect::<Vec<_>>(),
            "schedule_steps": steps.len(), "outputs": out_lens}));
    }
    findings
}

pub fn entries_for(mode: Mode) -> Vec<&'static Entry> {
    ENTRIES
        .iter()
        .filter(|e| match mode {
            Mode::C08 | Mode::C09 => true,
            // only entries that have a spec / tagspec are useful; decided at run time
            Mode::C10 | Mode::C12 => true,
        })
        .collect()
}

/// `Delay::set_delay()` ("Change the delay"): the block's documented function
/// with a parameter change, and its verdicts afterwards. Specification: after
/// `set_delay(d)` the stream is delayed by `d` samples relative to the input,
/// i.e. raising by k inserts k zeroes at that point and lowering by k drops
/// that many owed zeroes or, when none are owed, the next k input samples.
/// The change is made before the first call or at a quiescent point (all input
/// fed so far has been processed), so the expected output is unambiguous.
fn delay_retune(mode: Mode, rng: &mut Rng, rep: &mut Report) -> Vec<(String, String, Value)> {
    use rustradio::block::{Block, BlockRet};
    use rustradio::blocks::Delay;
    use rustradio::stream::{Tag, TagValue, new_stream};
    let mut out = Vec::new();
    let sizes = [0usize, 1, 2, 5, 64, 700, 3000];
    for _ in 0..40 {
        let d0 = *rng.pick(&sizes);
        // one to three changes in a row, all at the same (quiescent) point
        let changes: Vec<usize> = (0..rng.range(1, 3)).map(|_| *rng.pick(&sizes)).collect();
        let d1 = *changes.last().unwrap();
        let before_start = rng.chance(1, 2);
        let n1 = if before_start { 0 } else { *rng.pick(&[0usize, 1, 9, 800]) };
        let n2 = *rng.pick(&[0usize, 1, 3, 40, 900, 4000]);
        let replay = json!({"part": "delay-retune", "delay": d0, "new_delays": changes.clone(), "before_first_call": before_start, "fed_before": n1, "fed_after": n2});
        rep.count("delay_retune_cases", 1);
        let data: Vec<u32> = (0..(n1 + n2) as u32).map(|i| i + 1).collect();
        let tag_every = *rng.pick(&[1u32, 2, 7, 50]);
        // model
        let mut want: Vec<u32> = Vec::new();
        let (mut owed, mut skip) = (d0, 0usize);
        if !before_start {
            want.extend(std::iter::repeat(0).take(owed));
            owed = 0;
            want.extend_from_slice(&data[..n1]);
        }
        let mut cur = d0;
        for &d in &changes {
            if d > cur {
                let k = d - cur;
                let c = std::cmp::min(skip, k);
                skip -= c;
                owed += k - c;
            } else {
                let k = cur - d;
                let c = std::cmp::min(owed, k);
                owed -= c;
                skip += k - c;
            }
            cur = d;
        }
        let _ = d1;
        want.extend(std::iter::repeat(0).take(owed));
        want.extend(data[n1..].iter().skip(skip));
        let res = catch(|| -> Result<(Vec<u32>, Option<String>, Vec<(usize, String, TagValue)>), String> {
            let (w, r) = new_stream::<u32>();
            let (mut blk, o) = Delay::new(r, d0);
            let mut got: Vec<u32> = Vec::new();
            let mut spin: Option<String> = None;
            // every sample whose (unique) value is 3 mod `tag_every` carries a tag holding that value
            let feed = |w: &rustradio::stream::WriteStream<u32>, d: &[u32]| {
                if !d.is_empty() {
                    let tags: Vec<Tag> = d.iter().enumerate().filter(|(_, v)| **v % tag_every == 3 % tag_every).map(|(i, v)| Tag::new(i, "v", TagValue::U64(*v as u64))).collect();
                    let mut wb = w.write_buf().unwrap();
                    wb.slice()[..d.len()].copy_from_slice(d);
                    wb.produce(d.len(), &tags);
                }
            };
            let mut got_tags: Vec<(usize, String, TagValue)> = Vec::new();
            let mut run = |blk: &mut Delay<u32>, got: &mut Vec<u32>, spin: &mut Option<String>| -> Result<(), String> {
                let mut quiet = 0;
                let mut idle_again = 0;
                for _ in 0..400 {
                    let b4 = rec::thread_data_events();
                    let again = matches!(blk.work().map_err(|e| format!("{e}"))?, BlockRet::Again);
                    let moved = rec::thread_data_events() != b4;
                    let (rb, tg) = o.read_buf().map_err(|e| format!("{e}"))?;
                    let n = rb.len();
                    for t in &tg {
                        got_tags.push((got.len() + t.pos(), t.key().to_string(), t.val().clone()));
                    }
                    got.extend_from_slice(rb.slice());
                    rb.consume(n);
                    if moved {
                        quiet = 0;
                        idle_again = 0;
                    } else {
                        quiet += 1;
                        if again {
                            idle_again += 1;
                            if idle_again >= 9 && spin.is_none() {
                                *spin = Some("9 consecutive work() calls answered Again without consuming or producing".into());
                            }
                        }
                        if quiet >= 12 {
                            break;
                        }
                    }
                }
                Ok(())
            };
            if !before_start {
                feed(&w, &data[..n1]);
                run(&mut blk, &mut got, &mut spin)?;
            }
            for &d in &changes {
                blk.set_delay(d);
            }
            feed(&w, &data[n1..]);
            run(&mut blk, &mut got, &mut spin)?;
            drop(w);
            run(&mut blk, &mut got, &mut spin)?;
            drop(run);
            Ok((got, spin, got_tags))
        });
        match res {
            Err(p) => out.push((format!("Delay::set_delay|panic|{}", sig_of_msg(&p)), format!("panicked: {p}; case {replay}"), replay)),
            Ok(Err(e)) => out.push(("Delay::set_delay|error".into(), format!("work() failed: {e}; case {replay}"), replay)),
            Ok(Ok((got, spin, got_tags))) => {
                if mode == Mode::C12 {
                    // exactly once, on the output sample that corresponds to the tagged input
                    // sample: values are unique, so the sample under a tag names its origin
                    let mut seen = std::collections::BTreeMap::<u64, usize>::new();
                    let mut bad: Option<String> = None;
                    for (pos, key, val) in &got_tags {
                        let v = match val {
                            TagValue::U64(v) if key == "v" => *v,
                            _ => {
                                bad.get_or_insert(format!("a tag nobody attached: ({key}, {val:?}) at output index {pos}"));
                                continue;
                            }
                        };
                        *seen.entry(v).or_insert(0) += 1;
                        // "shifted by the delay": the absolute index the specification gives that sample
                        let want_at = want.iter().position(|w| *w as u64 == v);
                        if want_at != Some(*pos) {
                            bad.get_or_insert(format!("the tag of input sample {v} arrived at output index {pos}; with these delays that sample belongs at index {want_at:?}"));
                        }
                        if got.get(*pos).map(|s| *s as u64) != Some(v) {
                            bad.get_or_insert(format!("the tag of input sample {v} arrived at output index {pos}, which holds sample {:?}", got.get(*pos)));
                        }
                    }
                    for (v, n) in &seen {
                        if *n != 1 {
                            bad.get_or_insert(format!("the tag of input sample {v} was delivered {n} times"));
                        }
                    }
                    for v in got.iter().filter(|v| **v != 0 && **v % tag_every == 3 % tag_every) {
                        if !seen.contains_key(&(*v as u64)) {
                            bad.get_or_insert(format!("input sample {v} was delivered without its tag"));
                        }
                    }
                    // every tag whose sample these delays let through is delivered
                    for v in want.iter().filter(|v| **v != 0 && **v % tag_every == 3 % tag_every) {
                        if !seen.contains_key(&(*v as u64)) {
                            bad.get_or_insert(format!("the tag of input sample {v} never arrived (these delays do not skip that sample)"));
                        }
                    }
                    match bad {
                        Some(b) => out.push(("Delay::set_delay|tag-misplaced-lost-or-duplicated".into(), format!("{b}; {} samples out, {} tags out; case {replay}", got.len(), got_tags.len()), replay)),
                        None => {
                            rep.count("delay_retune_tags_checked", got_tags.len() as u64);
                        }
                    }
                } else if mode == Mode::C09 {
                    if let Some(sp) = spin {
                        out.push(("Delay::set_delay|idle-spin".into(), format!("{sp}; case {replay}"), replay));
                    }
                } else if got != want {
                    let at = got.iter().zip(&want).take_while(|(a, b)| a == b).count();
                    out.push((
                        "Delay::set_delay|output-differs-from-spec".into(),
                        format!("{} samples out, specification {}; first difference at {at}: got {:?} want {:?}; case {replay}", got.len(), want.len(), got.get(at), want.get(at)),
                        replay,
                    ));
                } else {
                    rep.count("delay_retune_outputs_equal_spec", 1);
                }
            }
        }
    }
    out
}

pub fn main(opts: &Opts, mode: Mode) -> Report {
    let prop = mode.id();
    let mut rep = Report::new(prop);
    rep.rule = match mode {
        Mode::C08 => "per case: one library block x seeded parameters x seeded input (0..3 stream capacities) x seeded adversarial drip-feed schedule (feed 1..all, work 1..4, drain 0..all; phases trickle/small/bulk/output-kept-full) on 1-4 page streams; output compared bit-for-bit with a one-shot run on default streams, prefix checked at every drain; in a third of the scheduled calls the harness also acts as the concurrently running neighbour blocks inside the call (drains an output / feeds an input at the stream operations' yield points); distinct = (block, input situation, output situation, verdict, named stream) combinations visited by work() calls".into(),
        Mode::C09 => "the C08 catalogue and schedules, and in a third of the scheduled calls the harness also acts as the neighbouring blocks *inside* the call: at the yield points of the stream operations (no lock held) it drains an output or feeds an input, as concurrently running neighbours do under MTGraph; every work() call is observed through the stream hooks: offered vs moved per stream (with activity inside the call: every commit against the window the block was actually handed), handle counts after return, stream named by a wait verdict (identified with a non-blocking wait(0) probe); after a wait verdict the harness satisfies exactly that request and demands progress or a changed verdict within 3 calls; Again without movement is re-called 8 times; after the inputs ended retirement is demanded within 8 calls; plus Delay::set_delay() scenarios (delay changed before the first call or at a quiescent point, input ending inside a pending skip): no idle spin; distinct = (block, input situation, output situation, verdict, named stream)".into(),
        Mode::C10 => "per case: block x seeded parameters x seeded input; output of the one-shot run and of the chunked run compared with an executable specification written from the documentation (for Delay also with set_delay() before the first call or at a quiescent point); in a third of the scheduled calls the harness also acts as the concurrently running neighbour blocks inside the call (drains an output / feeds an input at the stream operations' yield points); distinct = (block, situation, verdict) as in C08".into(),
        Mode::C12 => "per case: block x parameters x input carrying uniquely keyed tags clustered at likely split points x drip-feed schedule (for Delay also with set_delay() before the first call or at a quiescent point, every tag carrying the unique value of its sample); the multiset of (key, value, absolute output index) observed at the output compared with the expected mapping; in a third of the scheduled calls the harness also acts as the concurrently running neighbour blocks inside the call (drains an output / feeds an input at the stream operations' yield points); distinct as in C08".into(),
    };
    rep.assume("the harness plays both neighbours from one thread; reference run = same block constructor on default-size streams with all input delivered at once");

    if let Some(path) = &opts.replay {
        let v: Value = serde_json::from_str(&std::fs::read_to_string(path).expect("replay file")).expect("json");
        let c = Case::from_json(&v["replay"]).expect("case");
        rep.eval();
        match catch(|| run_case(&c, mode, &mut Report::new(prop))) {
            Ok(fs) => {
                for f in fs {
                    rep.violation(format!("{prop}|{}|{}", c.entry, f.class), f.detail, c.to_json());
                }
            }
            Err(p) => rep.violation(format!("{prop}|{}|harness-panic", c.entry), p, c.to_json()),
        }
        return rep;
    }

    if (mode == Mode::C09 || mode == Mode::C10 || mode == Mode::C12) && opts.val("entry").is_none() {
        rec::install(true);
        let mut r2 = Rng::new(opts.shard_seed() ^ 0xDE1A7);
        for (class, detail, replay) in delay_retune(mode, &mut r2, &mut rep) {
            rep.violation(format!("{prop}|{class}"), detail, replay);
        }
        rec::clear();
    }
    let only = opts.val("entry");
    let entries: Vec<&Entry> = entries_for(mode).into_iter().filter(|e| only.as_deref().map(|o| o == e.name).unwrap_or(true)).collect();
    let per_entry = opts.budget(16 * 60, 16 * 2500) as usize; // cases per entry per shard
    let mut rng = Rng::new(opts.shard_seed() ^ fnv_str(prop));
    for e in &entries {
        for k in 0..per_entry {
            let pages = *rng.pick(&[1usize, 1, 1, 2, 4]);
            // One case in sixty is long (up to 10-25 capacities of the small stream, untagged):
            // its one-shot reference run on default-size streams then sees windows of
            // 10^5 elements, which nothing else in the catalogue does.
            let long = mode != Mode::C12 && k % 60 == 31;
            let c = Case {
                entry: e.name.to_string(),
                seed: rng.next(),
                stream_bytes: std::cmp::max(e.min_stream, pages * rec::PAGE),
                tagged: !long && (mode == Mode::C12 || (k % 3 == 0)),
                max_len_pct: if long { *rng.pick(&[1000usize, 2500]) } else { *rng.pick(&[50usize, 120, 300]) },
            };
            if long {
                rep.count("long_input_cases", 1);
            }
            rep.eval();
            rep.set("blocks", e.name);
            match catch(|| run_case(&c, mode, &mut rep)) {
                Ok(fs) => {
                    for f in fs {
                        rep.violation(format!("{prop}|{}|{}", c.entry, f.class), f.detail, c.to_json());
                    }
                }
                Err(p) => {
                    rep.inconclusive(format!("harness panic in case {:?}: {p}", c.to_json()));
                }
            }
        }
    }
    rep
}
