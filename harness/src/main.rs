//! rrverif: runtime-monitoring harness for the rustradio properties C01..C20.
//!
//! Usage: rrverif <c01..c20> [--tier quick|thorough] [--seed N] [--shard I]
//!        [--nshards N] [--out FILE] [--replay FILE] [key=value ...]
//!
//! Each invocation is one shard: it runs its share of the workload, and writes
//! a JSON report of what it observed (events, distinct cases, violations).
//! The driver `/verif/check` merges shard reports and decides the verdict.
#![allow(clippy::type_complexity, clippy::too_many_arguments, clippy::needless_range_loop)]

mod blockprops;
mod derive;
mod drip;
mod duts;
mod e2e;
mod eos;
mod filesink;
mod formats;
mod graphs;
mod hdlc;
mod hdlcprop;
mod kernels;
mod maps;
mod runners;
mod sources;
mod spsc;
mod rec;
mod robust;
mod ring;
mod util;

use util::{Opts, Report};

fn parse_args() -> (String, Opts) {
    let args: Vec<String> = std::env::args().collect();
    if args.len() < 2 {
        eprintln!("usage: rrverif <property> [options]");
        std::process::exit(64);
    }
    let cmd = args[1].to_lowercase();
    let mut o = Opts {
        tier: std::env::var("VERIF_TIER").unwrap_or_else(|_| "quick".into()),
        seed: std::env::var("VERIF_SEED")
            .ok()
            .and_then(|s| s.parse().ok())
            .unwrap_or(1),
        shard: 0,
        nshards: 1,
        out: None,
        replay: None,
        extra: Vec::new(),
    };
    let mut i = 2;
    while i < args.len() {
        let a = &args[i];
        let mut next = || {
            i += 1;
            args.get(i).cloned().unwrap_or_default()
        };
        match a.as_str() {
            "--tier" => o.tier = next(),
            "--seed" => o.seed = next().parse().unwrap_or(1),
            "--shard" => o.shard = next().parse().unwrap_or(0),
            "--nshards" => o.nshards = next().parse().unwrap_or(1),
            "--out" => o.out = Some(next()),
            "--replay" => o.replay = Some(next()),
            other => o.extra.push(other.to_string()),
        }
        i += 1;
    }
    (cmd, o)
}

fn main() {
    let (cmd, opts) = parse_args();
    *util::OUT_PATH.lock().unwrap() = opts.out.clone();
    // Keep panic messages of caught panics out of the way unless asked for.
    if std::env::var("RRVERIF_PANIC_TRACE").is_err() {
        std::panic::set_hook(Box::new(|_| {}));
    }
    let rep: Report = match cmd.as_str() {
        "c01" => ring::main(&opts, false),
        "c02" => ring::main(&opts, true),
        "c03" => spsc::main(&opts),
        "c04" => eos::main(&opts),
        "c05" => runners::main(&opts, "C05"),
        "c06" => runners::main(&opts, "C06"),
        "c07" => runners::main(&opts, "C07"),
        "c08" => blockprops::main(&opts, blockprops::Mode::C08),
        "c09" => blockprops::main(&opts, blockprops::Mode::C09),
        "c10" => blockprops::main(&opts, blockprops::Mode::C10),
        "c11" => kernels::main(&opts),
        "c13" => hdlcprop::main(&opts),
        "c14" => formats::main(&opts),
        "c15" => robust::main(&opts),
        "c16" => sources::main(&opts),
        "c17" => filesink::main(&opts),
        "c17-child" => {
            let sub = opts.extra.first().cloned().unwrap_or_default();
            let rest: Vec<String> = opts.extra[1..].to_vec();
            if sub == "noop" {
                std::process::exit(0);
            }
            std::process::exit(if sub == "modes" { filesink::modes_child(&rest) } else { filesink::crash_child(&rest) });
        }
        "c15-child" => {
            let mode = opts.extra.first().cloned().unwrap_or_default();
            std::process::exit(robust::child(&mode));
        }
        "c18" => maps::main(&opts),
        "c18-child" => {
            let mode = opts.extra.first().cloned().unwrap_or_default();
            std::process::exit(maps::child(&mode));
        }
        "c19" => derive::main(&opts),
        "c12" => blockprops::main(&opts, blockprops::Mode::C12),
        "c20" => e2e::main(&opts),
        other => {
            eprintln!("unknown subcommand {other}");
            std::process::exit(64);
        }
    };
    let js = serde_json::to_string(&rep.to_json()).unwrap();
    match &opts.out {
        Some(p) => std::fs::write(p, js).expect("write report"),
        None => println!("{js}"),
    }
}
