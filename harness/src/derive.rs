//! C19: derive-generated blocks behave as documented for any stream arity.
//!
//! Harness-defined blocks using `#[derive(rustradio_macros::Block)]` with
//! 1..3 inputs x 1..3 outputs in `sync` and `sync_tag` mode, `default`/`into`
//! fields, and non-sync derived blocks with packet streams (constructor order
//! and generated `eof()` only).
use crate::drip::*;
use crate::rec;
use crate::util::*;
use rustradio::block::{Block, BlockEOF, BlockRet};
use rustradio::stream::{NCReadStream, NCWriteStream, ReadStream, Tag, TagValue, WriteStream};
use serde_json::{Value, json};
use std::borrow::Cow;

// Output functions: every output is a distinct function of the inputs, so a
// swapped read end or a swapped sample is identifiable.
fn f0(a: u32, b: u32, c: u32) -> u32 {
    a.wrapping_mul(3).wrapping_add(b.wrapping_mul(5)).wrapping_add(c.wrapping_mul(7)).wrapping_add(1)
}
fn f1(a: u32, b: u32, c: u32) -> u8 {
    (a ^ b.rotate_left(3) ^ c.rotate_left(7)) as u8 ^ 0x5a
}
fn f2(a: u32, b: u32, c: u32) -> f32 {
    ((a.wrapping_add(b).wrapping_add(c)) % 100_003) as f32 * 0.5
}

thread_local! {
    /// Steps (process_sync / process_sync_tags invocations) made on this thread
    /// since the counter was last taken: "processes exactly min(...) steps per
    /// call" is about what the generated work() *runs*, not only what it commits.
    static STEPS: std::cell::Cell<u64> = const { std::cell::Cell::new(0) };
}
fn step() {
    STEPS.with(|s| s.set(s.get() + 1));
}

macro_rules! sync_block {
    ($name:ident, [$($in:ident),+], [$($out:ident : $oty:ty),+], |$($arg:ident),+| $body:expr) => {
        #[derive(rustradio_macros::Block)]
        #[rustradio(new, sync)]
        pub struct $name {
            $(#[rustradio(in)] $in: ReadStream<u32>,)+
            $(#[rustradio(out)] $out: WriteStream<$oty>,)+
            #[rustradio(default)]
            calls: u64,
            bias: u32,
            #[rustradio(into)]
            label: String,
        }
        impl $name {
            fn process_sync(&mut self, $($arg: u32),+) -> ($($oty),+) {
                self.calls += 1;
                step();
                let _ = (&self.label, self.bias);
                $body
            }
        }
    };
}
sync_block!(S11, [a], [o0: u32], |a| f0(a, 0, 0));
sync_block!(S12, [a], [o0: u32, o1: u8], |a| (f0(a, 0, 0), f1(a, 0, 0)));
sync_block!(S13, [a], [o0: u32, o1: u8, o2: f32], |a| (f0(a, 0, 0), f1(a, 0, 0), f2(a, 0, 0)));
sync_block!(S21, [a, b], [o0: u32], |a, b| f0(a, b, 0));
sync_block!(S22, [a, b], [o0: u32, o1: u8], |a, b| (f0(a, b, 0), f1(a, b, 0)));
sync_block!(S23, [a, b], [o0: u32, o1: u8, o2: f32], |a, b| (f0(a, b, 0), f1(a, b, 0), f2(a, b, 0)));
sync_block!(S31, [a, b, c], [o0: u32], |a, b, c| f0(a, b, c));
sync_block!(S32, [a, b, c], [o0: u32, o1: u8], |a, b, c| (f0(a, b, c), f1(a, b, c)));
sync_block!(S33, [a, b, c], [o0: u32, o1: u8, o2: f32], |a, b, c| (f0(a, b, c), f1(a, b, c), f2(a, b, c)));

/// sync_tag mode, 2 inputs, 2 outputs: forwards the first input's tags and adds
/// a tag "mark" on samples where a is a multiple of 97.
#[derive(rustradio_macros::Block)]
#[rustradio(new, sync_tag)]
pub struct T22 {
    #[rustradio(in)]
    a: ReadStream<u32>,
    #[rustradio(in)]
    b: ReadStream<u32>,
    #[rustradio(out)]
    o0: WriteStream<u32>,
    #[rustradio(out)]
    o1: WriteStream<u8>,
    #[rustradio(default)]
    seen: u64,
}
impl T22 {
    fn process_sync_tags<'a>(&mut self, a: u32, at: &'a [Tag], b: u32, bt: &'a [Tag]) -> (u32, u8, Cow<'a, [Tag]>) {
        self.seen += 1;
        step();
        // Forwards the tags of *both* inputs (each input's tag slice must reach
        // the per-sample function whatever the other inputs carry).
        let tags = if a % 97 == 0 || !bt.is_empty() {
            let mut t = at.to_vec();
            t.extend_from_slice(bt);
            if a % 97 == 0 {
                t.push(Tag::new(0, "mark", TagValue::U64(a as u64)));
            }
            Cow::Owned(t)
        } else {
            Cow::Borrowed(at)
        };
        (f0(a, b, 0), f1(a, b, 0), tags)
    }
}
#[derive(rustradio_macros::Block)]
#[rustradio(new, sync_tag)]
pub struct T11 {
    #[rustradio(in)]
    a: ReadStream<u32>,
    #[rustradio(out)]
    o0: WriteStream<u32>,
}
impl T11 {
    fn process_sync_tags<'a>(&mut self, a: u32, at: &'a [Tag]) -> (u32, Cow<'a, [Tag]>) {
        step();
        (f0(a, 0, 0), Cow::Borrowed(at))
    }
}

/// Constructor argument order: an `into` field declared *before* a plain field
/// of a type that also accepts the other argument, so a generated `new()` that
/// takes its arguments in any other order than the declaration still compiles
/// and is told apart by the values that arrive.
#[derive(rustradio_macros::Block)]
#[rustradio(new, sync)]
pub struct ArgOrder {
    #[rustradio(in)]
    a: ReadStream<u32>,
    #[rustradio(out)]
    o0: WriteStream<u32>,
    #[rustradio(into)]
    gain: u32,
    offset: u32,
    #[rustradio(into)]
    last: u32,
}
impl ArgOrder {
    fn process_sync(&mut self, a: u32) -> u32 {
        a.wrapping_mul(self.gain).wrapping_add(self.offset).wrapping_add(self.last.wrapping_mul(1000))
    }
}

/// Non-sync derived block with a packet output first and a sample output
/// second, a sample input and a packet input: constructor order and eof().
#[derive(rustradio_macros::Block)]
#[rustradio(new)]
pub struct Mixed {
    #[rustradio(in)]
    samples: ReadStream<u8>,
    #[rustradio(in)]
    packets: NCReadStream<Vec<u8>>,
    #[rustradio(out)]
    pout: NCWriteStream<Vec<u8>>,
    #[rustradio(out)]
    sout: WriteStream<u32>,
    #[rustradio(default)]
    n: u32,
    gain: u32,
}
impl Block for Mixed {
    fn work(&mut self) -> rustradio::Result<BlockRet> {
        // emit one marker on each output so that the read ends are identifiable
        if self.n == 0 {
            self.n = 1;
            self.pout.push(vec![0xAA, self.gain as u8], &[]);
            let mut o = self.sout.write_buf()?;
            o.slice()[0] = 0xBBBB_0000 + self.gain;
            o.produce(1, &[]);
            return Ok(BlockRet::Again);
        }
        Ok(BlockRet::WaitForStream(&self.samples, 1))
    }
}

fn gen_in(rng: &mut Rng, n: usize, k: u32) -> Vec<u32> {
    (0..n).map(|i| (i as u32).wrapping_mul(97).wrapping_add(k * 1_000_003).wrapping_add(rng.below(3) as u32 * 97)).collect()
}

struct Arity {
    name: &'static str,
    nin: usize,
    nout: usize,
    tag_mode: bool,
    build: fn(Vec<ReadStream<u32>>) -> (Box<dyn Block>, Vec<Box<dyn OutPort>>),
}

macro_rules! builder {
    ($ty:ident, $nin:tt, [$($o:ident),+], $extra:tt) => {
        |mut r: Vec<ReadStream<u32>>| -> (Box<dyn Block>, Vec<Box<dyn OutPort>>) {
            r.reverse();
            builder!(@call $ty, $nin, r, [$($o),+], $extra)
        }
    };
    (@call $ty:ident, 1, $r:ident, [$($o:ident),+], sync) => {{
        let (b, $($o),+) = $ty::new($r.pop().unwrap(), 7u32, "label");
        (Box::new(b), vec![$(Box::new(CopyOut::new($o)) as Box<dyn OutPort>),+])
    }};
    (@call $ty:ident, 2, $r:ident, [$($o:ident),+], sync) => {{
        let (b, $($o),+) = $ty::new($r.pop().unwrap(), $r.pop().unwrap(), 7u32, String::from("label"));
        (Box::new(b), vec![$(Box::new(CopyOut::new($o)) as Box<dyn OutPort>),+])
    }};
    (@call $ty:ident, 3, $r:ident, [$($o:ident),+], sync) => {{
        let (b, $($o),+) = $ty::new($r.pop().unwrap(), $r.pop().unwrap(), $r.pop().unwrap(), 7u32, "label");
        (Box::new(b), vec![$(Box::new(CopyOut::new($o)) as Box<dyn OutPort>),+])
    }};
    (@call $ty:ident, 1, $r:ident, [$($o:ident),+], tag) => {{
        let (b, $($o),+) = $ty::new($r.pop().unwrap());
        (Box::new(b), vec![$(Box::new(CopyOut::new($o)) as Box<dyn OutPort>),+])
    }};
    (@call $ty:ident, 2, $r:ident, [$($o:ident),+], tag) => {{
        let (b, $($o),+) = $ty::new($r.pop().unwrap(), $r.pop().unwrap());
        (Box::new(b), vec![$(Box::new(CopyOut::new($o)) as Box<dyn OutPort>),+])
    }};
}

fn arities() -> Vec<Arity> {
    vec![
        Arity { name: "sync 1in 1out", nin: 1, nout: 1, tag_mode: false, build: builder!(S11, 1, [o0], sync) },
        Arity { name: "sync 1in 2out", nin: 1, nout: 2, tag_mode: false, build: builder!(S12, 1, [o0, o1], sync) },
        Arity { name: "sync 1in 3out", nin: 1, nout: 3, tag_mode: false, build: builder!(S13, 1, [o0, o1, o2], sync) },
        Arity { name: "sync 2in 1out", nin: 2, nout: 1, tag_mode: false, build: builder!(S21, 2, [o0], sync) },
        Arity { name: "sync 2in 2out", nin: 2, nout: 2, tag_mode: false, build: builder!(S22, 2, [o0, o1], sync) },
        Arity { name: "sync 2in 3out", nin: 2, nout: 3, tag_mode: false, build: builder!(S23, 2, [o0, o1, o2], sync) },
        Arity { name: "sync 3in 1out", nin: 3, nout: 1, tag_mode: false, build: builder!(S31, 3, [o0], sync) },
        Arity { name: "sync 3in 2out", nin: 3, nout: 2, tag_mode: false, build: builder!(S32, 3, [o0, o1], sync) },
        Arity { name: "sync 3in 3out", nin: 3, nout: 3, tag_mode: false, build: builder!(S33, 3, [o0, o1, o2], sync) },
        Arity { name: "sync_tag 1in 1out", nin: 1, nout: 1, tag_mode: true, build: builder!(T11, 1, [o0], tag) },
        Arity { name: "sync_tag 2in 2out", nin: 2, nout: 2, tag_mode: true, build: builder!(T22, 2, [o0, o1], tag) },
    ]
}

fn expected_outputs(ins: &[Vec<u32>], nout: usize) -> Vec<Data> {
    let n = ins.iter().map(|v| v.len()).min().unwrap_or(0);
    let g = |k: usize, i: usize| ins.get(k).map(|v| v[i]).unwrap_or(0);
    let mut outs = Vec::new();
    outs.push(Data::U32((0..n).map(|i| f0(g(0, i), g(1, i), g(2, i))).collect()));
    if nout >= 2 {
        outs.push(Data::U8((0..n).map(|i| f1(g(0, i), g(1, i), g(2, i))).collect()));
    }
    if nout >= 3 {
        outs.push(Data::F32((0..n).map(|i| f2(g(0, i), g(1, i), g(2, i))).collect()));
    }
    outs
}

fn run_arity(a: &Arity, seed: u64, rep: &mut Report) -> Vec<(String, String)> {
    let mut out = Vec::new();
    let mut rng = Rng::new(seed);
    let stream = rec::PAGE * *rng.pick(&[1usize, 1, 2]);
    let cap32 = stream / 4;
    // deliberately uneven inputs
    let lens: Vec<usize> = (0..a.nin).map(|_| rng.range(0, 3 * cap32)).collect();
    let datas: Vec<Vec<u32>> = (0..a.nin).map(|k| gen_in(&mut rng, lens[k], k as u32)).collect();
    rec::stream_size(stream);
    let mut ins: Vec<Box<dyn InPort>> = Vec::new();
    let mut rs = Vec::new();
    let mut in_tags: Vec<Vec<InTag>> = Vec::new();
    for k in 0..a.nin {
        let (mut p, r) = CopyIn::new(datas[k].clone());
        let ctx = Ctx { stream_bytes: stream, tagged: true, max_len_pct: 300 };
        let t = crate::duts::gen_tags(&mut rng, lens[k], &ctx, &format!("in{k}_"));
        p.set_tags(t.clone());
        in_tags.push(t);
        ins.push(Box::new(p));
        rs.push(r);
    }
    let (block, outs) = (a.build)(rs);
    rec::stream_size(0);
    let dut = Dut { name: a.name.into(), params: json!({}), block, ins, outs, keeps_history: 0, cleanup: None };
    let mut r = Runner::new(dut);
    let nin = a.nin;
    let nout = a.nout;
    let mut call_findings: Vec<(String, String)> = Vec::new();
    let mut steps = Vec::new();
    {
        let mut on_call = |r: &mut Runner, c: &Call, _rng: &mut Rng| {
            rep.count("work_calls_checked", 1);
            let ran = STEPS.with(|s| s.take());
            if call_findings.len() > 3 || c.verdict == Verdict::Panic {
                return;
            }
            let min_in = *c.offered_in.iter().min().unwrap();
            let min_out = *c.offered_out.iter().min().unwrap();
            let steps = std::cmp::min(min_in, min_out);
            let sit = format!("{}|in{:?}|out{:?}", a.name, c.offered_in.iter().map(|&x| (x == 0, x == min_in)).collect::<Vec<_>>(), c.offered_out.iter().map(|&x| (x == 0, x == min_out)).collect::<Vec<_>>());
            rep.distinct(fnv_str(&sit));
            rep.count("process_steps_counted", ran);
            if ran != steps as u64 {
                call_findings.push(("steps-run-per-call".into(), format!("the generated work() ran the per-sample function {ran} times in a call where min(shortest input {min_in}, smallest output space {min_out}) = {steps}; offered in {:?} out {:?}", c.offered_in, c.offered_out)));
                return;
            }
            for i in 0..nin {
                if c.moved_in[i] != steps {
                    call_findings.push(("steps-per-call".into(), format!("input {i} consumed {} but min(shortest input {min_in}, smallest output space {min_out}) = {steps}; offered in {:?} out {:?}", c.moved_in[i], c.offered_in, c.offered_out)));
                    return;
                }
            }
            for o in 0..nout {
                if c.moved_out[o] != steps {
                    call_findings.push(("steps-per-call".into(), format!("output {o} produced {} but steps = {steps}; offered in {:?} out {:?}", c.moved_out[o], c.offered_in, c.offered_out)));
                    return;
                }
            }
            // verdict
            if steps > 0 {
                if c.verdict != Verdict::Again {
                    call_findings.push(("verdict".into(), format!("processed {steps} steps but verdict {:?}", c.verdict)));
                }
            } else if c.verdict == Verdict::WaitStream && c.need != 1 {
                // One sample on the named stream is what the next step needs: asking for
                // more makes a runner treat a shorter, ended stream as "never satisfiable".
                call_findings.push(("wait-asks-for-more-than-one-step".into(), format!("verdict WaitForStream(.., {}) from a block that processes one sample per step; offered in {:?} out {:?}", c.need, c.offered_in, c.offered_out)));
            } else if min_in == 0 {
                let first_empty = c.offered_in.iter().position(|&x| x == 0).unwrap();
                let ok = c.verdict == Verdict::WaitStream && matches!(c.named, Some((true, i)) if c.offered_in[i] == 0);
                if !ok {
                    call_findings.push(("wait-names-wrong-stream".into(), format!("input {first_empty} is empty but verdict {:?} names {:?}; offered in {:?} out {:?}", c.verdict, c.named, c.offered_in, c.offered_out)));
                }
            } else {
                let ok = c.verdict == Verdict::WaitStream && matches!(c.named, Some((false, o)) if c.offered_out[o] == 0);
                if !ok {
                    call_findings.push(("wait-names-wrong-stream".into(), format!("an output is full but verdict {:?} names {:?}; offered in {:?} out {:?}", c.verdict, c.named, c.offered_in, c.offered_out)));
                }
            }
            let _ = r;
        };
        STEPS.with(|s| s.set(0));
        run_schedule(&mut r, &mut rng, &mut on_call, &mut |_| {}, &mut steps);
    }
    out.extend(call_findings);
    if r.dead {
        out.push(("died".into(), format!("{:?}", r.last_calls.last().and_then(|c| c.msg.clone()))));
        return out;
    }
    let got = r.outputs();
    let want = expected_outputs(&datas, nout);
    for o in 0..nout {
        if let Some(at) = got[o].first_diff(&want[o]) {
            out.push(("output-content-or-order".into(), format!("output {o} (declaration order): {} items, expected {}; first difference at {at}: got {} want {}", got[o].len(), want[o].len(), got[o].describe(at.min(got[o].len().saturating_sub(1))), want[o].describe(at.min(want[o].len().saturating_sub(1))))));
            break;
        }
    }
    // tags: first input's tags on every output (plus "mark" in tag mode with 2 inputs)
    let n = datas.iter().map(|v| v.len()).min().unwrap();
    let mut exp: Vec<OutTag> = in_tags[0].iter().filter(|t| t.pos < n).map(|t| OutTag { pos: t.pos as u64, key: t.key.clone(), val: tv_repr(&t.val) }).collect();
    if a.tag_mode && a.nin == 2 {
        exp.extend(in_tags[1].iter().filter(|t| t.pos < n).map(|t| OutTag { pos: t.pos as u64, key: t.key.clone(), val: tv_repr(&t.val) }));
        for i in 0..n {
            if datas[0][i] % 97 == 0 {
                exp.push(OutTag { pos: i as u64, key: "mark".into(), val: tv_repr(&TagValue::U64(datas[0][i] as u64)) });
            }
        }
    }
    exp.sort();
    let tags = r.out_tags();
    for o in 0..nout {
        let mut g = tags[o].clone();
        g.sort();
        rep.count("tags_checked", g.len() as u64);
        if g != exp {
            out.push(("tags".into(), format!("output {o}: {} tags, expected {} ({})", g.len(), exp.len(), if a.tag_mode && a.nin == 2 { "both inputs' tags plus added marks" } else { "first input's tags" })));
            break;
        }
    }
    // eof(): after finish() all inputs are ended; drained only for the shortest
    out
}

/// Truth table of the generated eof() over all subsets of ended / drained inputs.
fn eof_table(rep: &mut Report) -> Vec<(String, String)> {
    let mut out = Vec::new();
    // sync 3in block: inputs copy streams
    for mask_ended in 0..8u32 {
        for mask_drained in 0..8u32 {
            rec::stream_size(rec::PAGE);
            let mut ws = Vec::new();
            let mut rs = Vec::new();
            for _ in 0..3 {
                let (w, r) = rustradio::stream::new_stream::<u32>();
                ws.push(Some(w));
                rs.push(r);
            }
            rs.reverse();
            let (mut b, _o0) = S31::new(rs.pop().unwrap(), rs.pop().unwrap(), rs.pop().unwrap(), 0u32, "x");
            rec::stream_size(0);
            for k in 0..3 {
                if mask_drained & (1 << k) == 0 {
                    let mut wb = ws[k].as_ref().unwrap().write_buf().unwrap();
                    wb.slice()[0] = 1;
                    wb.produce(1, &[]);
                }
                if mask_ended & (1 << k) != 0 {
                    ws[k] = None;
                }
            }
            let want = mask_ended == 7 && mask_drained == 7;
            let got = b.eof();
            rep.count("eof_truth_table_rows", 1);
            if got != want {
                out.push(("eof-truth-table".into(), format!("3 copy inputs, ended mask {mask_ended:03b}, drained mask {mask_drained:03b}: eof() = {got}, documented {want}")));
            }
        }
    }
    // mixed copy + packet inputs
    for mask_ended in 0..4u32 {
        for mask_drained in 0..4u32 {
            let (ws, rs) = rustradio::stream::new_stream::<u8>();
            let (wp, rp) = rustradio::stream::new_nocopy_stream::<Vec<u8>>();
            let (mut b, pr, sr) = Mixed::new(rs, rp, 5u32);
            if mask_drained & 1 == 0 {
                let mut wb = ws.write_buf().unwrap();
                wb.slice()[0] = 1;
                wb.produce(1, &[]);
            }
            if mask_drained & 2 == 0 {
                wp.push(vec![1], &[]);
            }
            let mut ws = Some(ws);
            let mut wp = Some(wp);
            if mask_ended & 1 != 0 {
                ws = None;
            }
            if mask_ended & 2 != 0 {
                wp = None;
            }
            let want = mask_ended == 3 && mask_drained == 3;
            let got = b.eof();
            rep.count("eof_truth_table_rows", 1);
            if got != want {
                out.push(("eof-truth-table".into(), format!("copy + packet input, ended mask {mask_ended:02b}, drained mask {mask_drained:02b}: eof() = {got}, documented {want}")));
            }
            // constructor order: packet read end first, sample read end second
            let _ = b.work();
            let p = pr.pop().map(|x| x.0);
            let s = sr.read_buf().ok().map(|(b, _)| b.slice().to_vec());
            rep.count("constructor_order_checks", 1);
            if p != Some(vec![0xAA, 5]) || s != Some(vec![0xBBBB_0005]) {
                out.push(("constructor-order".into(), format!("new() of a block with (packet out, sample out) did not return the read ends in declaration order: got {p:?} / {s:?}")));
            }
            drop((ws, wp));
        }
    }
    // constructor arguments arrive in declaration order (into and plain fields mixed)
    {
        use rustradio::block::Block;
        let (w, r) = rustradio::stream::new_stream::<u32>();
        let (mut b, o) = ArgOrder::new(r, 2u32, 10u32, 3u32);
        {
            let mut wb = w.write_buf().unwrap();
            wb.slice()[..3].copy_from_slice(&[1, 2, 3]);
            wb.produce(3, &[]);
        }
        let _ = b.work();
        let got = o.read_buf().ok().map(|(b, _)| b.slice().to_vec());
        rep.count("constructor_argument_order_checks", 1);
        // gain = 2, offset = 10, last = 3  ->  a*2 + 10 + 3000
        if got != Some(vec![3012, 3014, 3016]) {
            out.push(("constructor-argument-order".into(), format!("new(src, 2, 10, 3) of a block declaring (into gain, plain offset, into last) computed {got:?}; with the arguments in declaration order a*gain+offset+1000*last gives [3012, 3014, 3016]")));
        }
    }
    out
}

pub fn main(opts: &Opts) -> Report {
    let mut rep = Report::new("C19");
    rep.rule = "harness-defined #[derive(rustradio_macros::Block)] blocks with 1..3 inputs x 1..3 outputs in sync mode (default and into fields, distinct output function and element type per output) and sync_tag mode (1x1, 2x2 adding tags), driven by the drip-feed engine with deliberately uneven inputs and output space: every call must consume/produce exactly min(shortest input, smallest output space) on every stream, name an empty input / full output when it waits, deliver outputs in declaration order with the right function, and forward the first input's tags to every output; generated eof() truth table over all subsets of ended/drained inputs (3 copy inputs; copy + packet input); constructor order for packet and sample outputs and for into/plain field arguments; distinct = (arity, which streams were empty / limiting)".into();
    rep.assume("harness blocks are compiled with the repository's macro crate from the working tree");
    rec::install(true);
    if opts.replay.is_some() {
        // cheap: replay re-runs the quick workload with the same seeds
    }
    let mut rng = Rng::new(opts.shard_seed() ^ 0xC19);
    let ars = arities();
    let per = opts.budget(16 * 100, 16 * 5000);
    for a in &ars {
        for _ in 0..per {
            let seed = rng.next();
            rep.eval();
            rep.set("arities", a.name);
            if rep.want_sample() {
                rep.sample(json!({"arity": a.name, "case_seed": seed.to_string()}));
            }
            match catch(|| run_arity(a, seed, &mut rep)) {
                Ok(fs) => {
                    for (class, d) in fs {
                        rep.violation(format!("C19|{}|{class}", a.name), d, json!({"arity": a.name, "case_seed": seed.to_string()}));
                    }
                }
                Err(p) => rep.inconclusive(format!("harness panic: {p}")),
            }
        }
    }
    if opts.shard == 0 {
        rep.eval();
        for (class, d) in eof_table(&mut rep) {
            rep.violation(format!("C19|derive|{class}"), d, json!({"part": "eof-table"}));
        }
    }
    let _: Option<Value> = None;
    rep
}
