//! Drip-feed engine: the harness is both neighbours of one block.
//!
//! It owns the write ends of the block's inputs and the read ends of its
//! outputs, decides how much input arrives and how much output space is freed
//! between `work()` calls, and records for every call what was offered, what
//! moved on which stream (from the hook events), the verdict and the stream a
//! wait verdict names.
use crate::rec::{self, Rec};
use crate::util::*;
use num_complex::Complex;
use rustradio::block::{Block, BlockRet};
use rustradio::stream::{
    NCReadStream, NCWriteStream, ReadStream, Tag, TagValue, WriteStream, new_nocopy_stream,
    new_stream,
};
use rustradio::verif::{Ev, Site};
use serde_json::{Value, json};

pub type C32 = Complex<f32>;

#[derive(Clone, Debug, PartialEq)]
pub enum Data {
    U8(Vec<u8>),
    U32(Vec<u32>),
    F32(Vec<f32>),
    C32(Vec<C32>),
    PU8(Vec<Vec<u8>>),
    PF32(Vec<Vec<f32>>),
    PC32(Vec<Vec<C32>>),
}

fn pod_bytes<T: Copy>(s: &[T]) -> Vec<u8> {
    crate::ring::as_bytes(s).to_vec()
}

impl Data {
    pub fn len(&self) -> usize {
        match self {
            Data::U8(v) => v.len(),
            Data::U32(v) => v.len(),
            Data::F32(v) => v.len(),
            Data::C32(v) => v.len(),
            Data::PU8(v) => v.len(),
            Data::PF32(v) => v.len(),
            Data::PC32(v) => v.len(),
        }
    }
    pub fn elem_size(&self) -> usize {
        match self {
            Data::U8(_) => 1,
            Data::U32(_) | Data::F32(_) => 4,
            Data::C32(_) => 8,
            _ => 0,
        }
    }
    pub fn is_packet(&self) -> bool {
        matches!(self, Data::PU8(_) | Data::PF32(_) | Data::PC32(_))
    }
    /// Canonical bytes: samples back to back; packets length-prefixed.
    pub fn bytes(&self) -> Vec<u8> {
        fn pk<T: Copy>(v: &[Vec<T>]) -> Vec<u8> {
            let mut o = Vec::new();
            for p in v {
                o.extend((p.len() as u32).to_le_bytes());
                o.extend(pod_bytes(p));
            }
            o
        }
        match self {
            Data::U8(v) => v.clone(),
            Data::U32(v) => pod_bytes(v),
            Data::F32(v) => pod_bytes(v),
            Data::C32(v) => pod_bytes(v),
            Data::PU8(v) => pk(v),
            Data::PF32(v) => pk(v),
            Data::PC32(v) => pk(v),
        }
    }
    /// First index at which two data sets of the same kind differ.
    pub fn first_diff(&self, other: &Data) -> Option<usize> {
        fn fd<T: Copy>(a: &[T], b: &[T]) -> Option<usize> {
            let n = std::cmp::min(a.len(), b.len());
            for i in 0..n {
                if crate::ring::as_bytes(&a[i..i + 1]) != crate::ring::as_bytes(&b[i..i + 1]) {
                    return Some(i);
                }
            }
            if a.len() != b.len() { Some(n) } else { None }
        }
        fn fdp<T: Copy>(a: &[Vec<T>], b: &[Vec<T>]) -> Option<usize> {
            let n = std::cmp::min(a.len(), b.len());
            for i in 0..n {
                if crate::ring::as_bytes(&a[i]) != crate::ring::as_bytes(&b[i]) {
                    return Some(i);
                }
            }
            if a.len() != b.len() { Some(n) } else { None }
        }
        match (self, other) {
            (Data::U8(a), Data::U8(b)) => fd(a, b),
            (Data::U32(a), Data::U32(b)) => fd(a, b),
            (Data::F32(a), Data::F32(b)) => fd(a, b),
            (Data::C32(a), Data::C32(b)) => fd(a, b),
            (Data::PU8(a), Data::PU8(b)) => fdp(a, b),
            (Data::PF32(a), Data::PF32(b)) => fdp(a, b),
            (Data::PC32(a), Data::PC32(b)) => fdp(a, b),
            _ => Some(0),
        }
    }
    /// Is `self` a prefix of `other`?
    pub fn is_prefix_of(&self, other: &Data) -> bool {
        match self.first_diff(other) {
            None => true,
            Some(i) => i == self.len() && self.len() <= other.len(),
        }
    }
    pub fn describe(&self, at: usize) -> String {
        fn w<T: std::fmt::Debug>(v: &[T], at: usize) -> String {
            let lo = at.saturating_sub(2);
            let hi = std::cmp::min(v.len(), at + 3);
            format!("[{}..{}]={:?}", lo, hi, &v[lo..hi])
        }
        match self {
            Data::U8(v) => w(v, at),
            Data::U32(v) => w(v, at),
            Data::F32(v) => w(v, at),
            Data::C32(v) => w(v, at),
            Data::PU8(v) => format!("packet {at} of {}: {:?}", v.len(), v.get(at).map(|p| p.len())),
            Data::PF32(v) => format!("packet {at} of {}: {:?}", v.len(), v.get(at).map(|p| p.len())),
            Data::PC32(v) => format!("packet {at} of {}: {:?}", v.len(), v.get(at).map(|p| p.len())),
        }
    }
    pub fn kind(&self) -> &'static str {
        match self {
            Data::U8(_) => "u8",
            Data::U32(_) => "u32",
            Data::F32(_) => "f32",
            Data::C32(_) => "c32",
            Data::PU8(_) => "pkt<u8>",
            Data::PF32(_) => "pkt<f32>",
            Data::PC32(_) => "pkt<c32>",
        }
    }
}

pub trait Samp: Copy + Send + 'static {
    fn wrap(v: Vec<Self>) -> Data;
    fn unwrap(d: &Data) -> Vec<Self>;
}
macro_rules! samp {
    ($t:ty, $v:ident) => {
        impl Samp for $t {
            fn wrap(v: Vec<Self>) -> Data {
                Data::$v(v)
            }
            fn unwrap(d: &Data) -> Vec<Self> {
                match d {
                    Data::$v(v) => v.clone(),
                    _ => panic!("harness: wrong data kind"),
                }
            }
        }
    };
}
samp!(u8, U8);
samp!(u32, U32);
samp!(f32, F32);
samp!(C32, C32);
pub trait PSamp: Send + 'static + Sized {
    fn wrap(v: Vec<Self>) -> Data;
    fn unwrap(d: &Data) -> Vec<Self>;
}
macro_rules! psamp {
    ($t:ty, $v:ident) => {
        impl PSamp for Vec<$t> {
            fn wrap(v: Vec<Self>) -> Data {
                Data::$v(v)
            }
            fn unwrap(d: &Data) -> Vec<Self> {
                match d {
                    Data::$v(v) => v.clone(),
                    _ => panic!("harness: wrong data kind"),
                }
            }
        }
    };
}
psamp!(u8, PU8);
psamp!(f32, PF32);
psamp!(C32, PC32);

#[derive(Clone, Debug)]
pub struct InTag {
    pub pos: usize,
    pub key: String,
    pub val: TagValue,
}
#[derive(Clone, Debug, PartialEq, Eq, PartialOrd, Ord)]
pub struct OutTag {
    pub pos: u64,
    pub key: String,
    pub val: String,
}

pub fn tv_repr(v: &TagValue) -> String {
    match v {
        TagValue::Float(f) => format!("F{:08x}", f.to_bits()),
        other => format!("{other:?}"),
    }
}

pub trait InPort {
    fn feed(&mut self, k: usize) -> usize;
    fn pending(&self) -> usize;
    fn fed(&self) -> usize;
    /// Samples / packets currently sitting in the stream.
    fn buffered(&self) -> usize;
    fn free(&self) -> usize;
    fn capacity(&self) -> usize;
    fn close(&mut self);
    fn is_closed(&self) -> bool;
    fn id(&self) -> usize;
    fn handles(&self) -> usize;
    fn is_packet(&self) -> bool;
    fn data(&self) -> Data;
    fn tags(&self) -> &[InTag];
    fn set_tags(&mut self, t: Vec<InTag>);
    /// The harness may act on this port as the neighbouring block from inside
    /// a yield point of the block under test (plain stream ends only: no port
    /// that shares a block-internal lock).
    fn neighbour_may_act(&self) -> bool {
        false
    }
}
pub trait OutPort {
    fn drain(&mut self, j: usize) -> usize;
    fn available(&self) -> usize;
    fn free(&self) -> usize;
    fn capacity(&self) -> usize;
    fn id(&self) -> usize;
    fn handles(&self) -> usize;
    fn is_packet(&self) -> bool;
    fn collected(&self) -> Data;
    fn collected_len(&self) -> usize;
    fn tags(&self) -> &[OutTag];
    fn drop_reader(&mut self);
    fn reader_dropped(&self) -> bool;
    /// See `InPort::neighbour_may_act`.
    fn neighbour_may_act(&self) -> bool {
        false
    }
}

pub struct CopyIn<T: Samp> {
    w: Option<WriteStream<T>>,
    id: usize,
    cap: usize,
    data: Vec<T>,
    tags: Vec<InTag>,
    pos: usize,
    consumed_probe: Option<ReadProbe>,
}
/// Lets the in-port know how much is buffered without a read end: capacity - free.
struct ReadProbe;

impl<T: Samp> CopyIn<T> {
    /// Create a stream; returns the port (write end) and the read end for the block.
    pub fn new(data: Vec<T>) -> (Self, ReadStream<T>) {
        let (w, r) = new_stream::<T>();
        let id = w.verif_id();
        let cap = r.total_size();
        (
            Self {
                w: Some(w),
                id,
                cap,
                data,
                tags: Vec::new(),
                pos: 0,
                consumed_probe: None,
            },
            r,
        )
    }
}
impl<T: Samp> InPort for CopyIn<T> {
    fn neighbour_may_act(&self) -> bool {
        true
    }
    fn feed(&mut self, k: usize) -> usize {
        let _ = &self.consumed_probe;
        let Some(w) = &self.w else { return 0 };
        let mut wb = w.write_buf().expect("harness: write_buf on in-port");
        let n = std::cmp::min(std::cmp::min(k, wb.len()), self.data.len() - self.pos);
        if n == 0 {
            return 0;
        }
        wb.slice()[..n].copy_from_slice(&self.data[self.pos..self.pos + n]);
        let tags: Vec<Tag> = self
            .tags
            .iter()
            .filter(|t| t.pos >= self.pos && t.pos < self.pos + n)
            .map(|t| Tag::new(t.pos - self.pos, t.key.clone(), t.val.clone()))
            .collect();
        wb.produce(n, &tags);
        self.pos += n;
        n
    }
    fn pending(&self) -> usize {
        self.data.len() - self.pos
    }
    fn fed(&self) -> usize {
        self.pos
    }
    fn buffered(&self) -> usize {
        match &self.w {
            Some(w) => self.cap - w.free(),
            None => 0, // unknown once closed; callers use events instead
        }
    }
    fn free(&self) -> usize {
        self.w.as_ref().map(|w| w.free()).unwrap_or(0)
    }
    fn capacity(&self) -> usize {
        self.cap
    }
    fn close(&mut self) {
        self.w = None;
    }
    fn is_closed(&self) -> bool {
        self.w.is_none()
    }
    fn id(&self) -> usize {
        self.id
    }
    fn handles(&self) -> usize {
        self.w.as_ref().map(|w| w.verif_handles()).unwrap_or(0)
    }
    fn is_packet(&self) -> bool {
        false
    }
    fn data(&self) -> Data {
        T::wrap(self.data.clone())
    }
    fn tags(&self) -> &[InTag] {
        &self.tags
    }
    fn set_tags(&mut self, mut t: Vec<InTag>) {
        t.sort_by_key(|x| x.pos);
        self.tags = t;
    }
}

pub struct PktIn<P: PSamp + Clone> {
    w: Option<NCWriteStream<P>>,
    id: usize,
    data: Vec<P>,
    pos: usize,
    popped: std::sync::Arc<std::sync::atomic::AtomicUsize>,
}
impl<P: PSamp + Clone> PktIn<P> {
    pub fn new(data: Vec<P>) -> (Self, NCReadStream<P>) {
        let (w, r) = new_nocopy_stream::<P>();
        let id = w.verif_id();
        (
            Self {
                w: Some(w),
                id,
                data,
                pos: 0,
                popped: Default::default(),
            },
            r,
        )
    }
    /// Engine tells the port how many packets the block popped (from events).
    pub fn note_popped(&self, n: usize) {
        self.popped.fetch_add(n, std::sync::atomic::Ordering::Relaxed);
    }
}
impl<P: PSamp + Clone> InPort for PktIn<P> {
    fn neighbour_may_act(&self) -> bool {
        true
    }
    fn feed(&mut self, k: usize) -> usize {
        let Some(w) = &self.w else { return 0 };
        let n = std::cmp::min(k, self.data.len() - self.pos);
        for i in 0..n {
            w.push(self.data[self.pos + i].clone(), &[]);
        }
        self.pos += n;
        n
    }
    fn pending(&self) -> usize {
        self.data.len() - self.pos
    }
    fn fed(&self) -> usize {
        self.pos
    }
    fn buffered(&self) -> usize {
        self.pos - self.popped.load(std::sync::atomic::Ordering::Relaxed)
    }
    fn free(&self) -> usize {
        usize::MAX / 2
    }
    fn capacity(&self) -> usize {
        usize::MAX / 2
    }
    fn close(&mut self) {
        self.w = None;
    }
    fn is_closed(&self) -> bool {
        self.w.is_none()
    }
    fn id(&self) -> usize {
        self.id
    }
    fn handles(&self) -> usize {
        self.w.as_ref().map(|w| w.verif_handles()).unwrap_or(0)
    }
    fn is_packet(&self) -> bool {
        true
    }
    fn data(&self) -> Data {
        P::wrap(self.data.clone())
    }
    fn tags(&self) -> &[InTag] {
        &[]
    }
    fn set_tags(&mut self, _t: Vec<InTag>) {}
}

pub struct CopyOut<T: Samp> {
    r: Option<ReadStream<T>>,
    id: usize,
    cap: usize,
    got: Vec<T>,
    tags: Vec<OutTag>,
}
impl<T: Samp> CopyOut<T> {
    pub fn new(r: ReadStream<T>) -> Self {
        let id = r.verif_id();
        let cap = r.total_size();
        Self {
            r: Some(r),
            id,
            cap,
            got: Vec::new(),
            tags: Vec::new(),
        }
    }
}
impl<T: Samp> OutPort for CopyOut<T> {
    fn neighbour_may_act(&self) -> bool {
        true
    }
    fn drain(&mut self, j: usize) -> usize {
        let Some(r) = &self.r else { return 0 };
        let (rb, tags) = r.read_buf().expect("harness: read_buf on out-port");
        let n = std::cmp::min(j, rb.len());
        let base = self.got.len() as u64;
        self.got.extend_from_slice(&rb.slice()[..n]);
        for t in tags {
            if t.pos() < n {
                self.tags.push(OutTag {
                    pos: base + t.pos() as u64,
                    key: t.key().to_string(),
                    val: tv_repr(t.val()),
                });
            }
        }
        rb.consume(n);
        n
    }
    fn available(&self) -> usize {
        match &self.r {
            Some(r) => r.read_buf().map(|(b, _)| b.len()).unwrap_or(0),
            None => 0,
        }
    }
    fn free(&self) -> usize {
        self.cap - self.available()
    }
    fn capacity(&self) -> usize {
        self.cap
    }
    fn id(&self) -> usize {
        self.id
    }
    fn handles(&self) -> usize {
        self.r.as_ref().map(|r| r.verif_handles()).unwrap_or(0)
    }
    fn is_packet(&self) -> bool {
        false
    }
    fn collected(&self) -> Data {
        T::wrap(self.got.clone())
    }
    fn collected_len(&self) -> usize {
        self.got.len()
    }
    fn tags(&self) -> &[OutTag] {
        &self.tags
    }
    fn drop_reader(&mut self) {
        self.r = None;
    }
    fn reader_dropped(&self) -> bool {
        self.r.is_none()
    }
}

pub struct PktOut<P: PSamp + Clone> {
    r: Option<NCReadStream<P>>,
    id: usize,
    got: Vec<P>,
    pushed: std::sync::Arc<std::sync::atomic::AtomicUsize>,
}
impl<P: PSamp + Clone> PktOut<P> {
    pub fn new(r: NCReadStream<P>) -> Self {
        let id = r.verif_id();
        Self {
            r: Some(r),
            id,
            got: Vec::new(),
            pushed: Default::default(),
        }
    }
}
impl<P: PSamp + Clone> OutPort for PktOut<P> {
    fn neighbour_may_act(&self) -> bool {
        true
    }
    fn drain(&mut self, j: usize) -> usize {
        let Some(r) = &self.r else { return 0 };
        let mut n = 0;
        while n < j {
            match r.pop() {
                Some((p, _)) => {
                    self.got.push(p);
                    n += 1;
                }
                None => break,
            }
        }
        n
    }
    fn available(&self) -> usize {
        // Unknown without popping; the engine tracks pushes through events.
        self.pushed.load(std::sync::atomic::Ordering::Relaxed) - self.got.len().min(self.pushed.load(std::sync::atomic::Ordering::Relaxed))
    }
    fn free(&self) -> usize {
        usize::MAX / 2
    }
    fn capacity(&self) -> usize {
        usize::MAX / 2
    }
    fn id(&self) -> usize {
        self.id
    }
    fn handles(&self) -> usize {
        self.r.as_ref().map(|r| r.verif_handles()).unwrap_or(0)
    }
    fn is_packet(&self) -> bool {
        true
    }
    fn collected(&self) -> Data {
        P::wrap(self.got.clone())
    }
    fn collected_len(&self) -> usize {
        self.got.len()
    }
    fn tags(&self) -> &[OutTag] {
        &[]
    }
    fn drop_reader(&mut self) {
        self.r = None;
    }
    fn reader_dropped(&self) -> bool {
        self.r.is_none()
    }
}

/// The block under test with both its neighbours.
pub struct Dut {
    pub name: String,
    pub params: Value,
    pub block: Box<dyn Block>,
    pub ins: Vec<Box<dyn InPort>>,
    pub outs: Vec<Box<dyn OutPort>>,
    /// Minimum samples the block needs on input `i` before it can do anything
    /// (history kept in the input stream), for retirement checks.
    pub keeps_history: usize,
    /// Optional clean-up (temp files).
    pub cleanup: Option<Box<dyn FnOnce()>>,
}

impl Drop for Dut {
    fn drop(&mut self) {
        if let Some(c) = self.cleanup.take() {
            c();
        }
    }
}

#[derive(Clone, Copy, Debug, PartialEq, Eq, Hash, PartialOrd, Ord)]
pub enum Verdict {
    Again,
    Pending,
    WaitFunc,
    WaitStream,
    Eof,
    Err,
    Panic,
}

#[derive(Clone, Debug)]
pub struct Call {
    pub verdict: Verdict,
    /// For WaitStream: index of the named port: (is_input, index); None if it
    /// names a stream the harness does not own.
    pub named: Option<(bool, usize)>,
    pub need: usize,
    pub named_closed: bool,
    pub offered_in: Vec<usize>,
    pub offered_out: Vec<usize>,
    pub moved_in: Vec<usize>,
    pub moved_out: Vec<usize>,
    /// Stream events on streams that are neither inputs nor outputs (inner streams).
    pub inner_moves: usize,
    pub msg: Option<String>,
    pub handles_in: Vec<usize>,
    pub handles_out: Vec<usize>,
    pub windows_leaked: bool,
    /// Number of neighbour actions (drain of an output / feed of an input) the
    /// harness performed at yield points *inside* this call.
    pub interposed: u32,
    /// A commit larger than the write window the block had been handed, or a
    /// consume larger than its read window (judged from the hook events, so it
    /// is meaningful with neighbour activity during the call).
    pub window_overrun: Option<String>,
}
impl Call {
    pub fn moved_any(&self) -> bool {
        self.moved_in.iter().any(|&n| n > 0) || self.moved_out.iter().any(|&n| n > 0) || self.inner_moves > 0
    }
}

pub struct Runner {
    pub dut: Dut,
    pub calls: u64,
    pub dead: bool,
    pub last_calls: Vec<Call>,
    pub keep_calls: usize,
    nc_in_popped: Vec<usize>,
    nc_out_pushed: Vec<usize>,
    /// C09: PRNG for neighbour activity inside work() calls; None = never.
    pub interpose: Option<Rng>,
    /// Arm neighbour activity for the next work() call only.
    pub interpose_armed: bool,
}

/// Neighbour activity inside a work() call. Under MTGraph the blocks up- and
/// downstream run concurrently, so input can arrive and output space can be
/// freed between any two stream operations of a call. The hooks' yield points
/// are exactly the places where that can be observed (no stream lock is held
/// there), so the harness, which is both neighbours, acts from the yield
/// callback on the calling thread.
struct Interposer {
    ins: *mut Vec<Box<dyn InPort>>,
    outs: *mut Vec<Box<dyn OutPort>>,
    rng: Rng,
    acted: u32,
}
thread_local! {
    static INTERPOSE: std::cell::RefCell<Option<Interposer>> = const { std::cell::RefCell::new(None) };
}
fn interpose_handler(_ev: &Ev) {
    INTERPOSE.with(|c| {
        // Yield points passed by the neighbour action itself find the cell borrowed.
        let Ok(mut g) = c.try_borrow_mut() else { return };
        let Some(ip) = g.as_mut() else { return };
        if !ip.rng.chance(1, 5) {
            return;
        }
        // SAFETY: set by Runner::work() for the duration of block.work() on this
        // thread; the block does not own the ports and Runner does not touch them
        // while the block runs.
        let (ins, outs) = unsafe { (&mut *ip.ins, &mut *ip.outs) };
        let amount = |rng: &mut Rng| match rng.below(4) {
            0 => 1,
            1 => rng.range(1, 8),
            2 => rng.range(1, 600),
            _ => usize::MAX / 4,
        };
        if !outs.is_empty() && (ins.is_empty() || ip.rng.chance(1, 2)) {
            let o = ip.rng.below(outs.len());
            if outs[o].neighbour_may_act() {
                let k = amount(&mut ip.rng);
                if outs[o].drain(k) > 0 {
                    ip.acted += 1;
                }
            }
        } else if !ins.is_empty() {
            let i = ip.rng.below(ins.len());
            if ins[i].neighbour_may_act() && !ins[i].is_closed() && ins[i].pending() > 0 {
                let k = amount(&mut ip.rng);
                if ins[i].feed(k) > 0 {
                    ip.acted += 1;
                }
            }
        }
    });
}
fn interpose_end() -> u32 {
    rec::set_yield_handler(None);
    INTERPOSE.with(|c| c.borrow_mut().take().map(|ip| ip.acted).unwrap_or(0))
}

impl Runner {
    pub fn new(dut: Dut) -> Self {
        let ni = dut.ins.len();
        let no = dut.outs.len();
        rec::install(true);
        rec::set_record_yields(true);
        rec::clear();
        Self {
            dut,
            calls: 0,
            dead: false,
            last_calls: Vec::new(),
            keep_calls: 12,
            nc_in_popped: vec![0; ni],
            nc_out_pushed: vec![0; no],
            interpose: None,
            interpose_armed: false,
        }
    }

    pub fn in_buffered(&self, i: usize) -> usize {
        let p = &self.dut.ins[i];
        if p.is_packet() {
            p.fed() - self.nc_in_popped[i]
        } else {
            p.buffered()
        }
    }
    pub fn out_available(&self, o: usize) -> usize {
        let p = &self.dut.outs[o];
        if p.is_packet() {
            self.nc_out_pushed[o] - p.collected_len()
        } else {
            p.available()
        }
    }

    /// One `work()` call, fully observed.
    pub fn work(&mut self) -> Call {
        let ni = self.dut.ins.len();
        let no = self.dut.outs.len();
        let offered_in: Vec<usize> = (0..ni).map(|i| self.in_buffered(i)).collect();
        let offered_out: Vec<usize> = (0..no).map(|o| self.dut.outs[o].free()).collect();
        rec::clear();
        self.calls += 1;
        let in_ids: Vec<usize> = self.dut.ins.iter().map(|p| p.id()).collect();
        let out_ids: Vec<usize> = self.dut.outs.iter().map(|p| p.id()).collect();
        let mut verdict = Verdict::Again;
        let mut named_id: Option<usize> = None;
        let mut need = 0;
        let mut named_closed = false;
        let mut msg = None;
        let mut events: Vec<Rec> = Vec::new();
        let armed = self.interpose_armed && self.interpose.is_some();
        self.interpose_armed = false;
        if armed {
            let rng = Rng::new(self.interpose.as_mut().unwrap().next());
            let ip = Interposer { ins: &mut self.dut.ins as *mut _, outs: &mut self.dut.outs as *mut _, rng, acted: 0 };
            INTERPOSE.with(|c| *c.borrow_mut() = Some(ip));
            rec::set_yield_handler(Some(std::sync::Arc::new(interpose_handler)));
        }
        let mut interposed = 0u32;
        let block = &mut self.dut.block;
        let r = catch(|| {
            let ret = block.work();
            let acted = if armed { interpose_end() } else { 0 };
            let evs = rec::take();
            let out = match &ret {
                Ok(BlockRet::Again) => (Verdict::Again, None, 0, false, None),
                Ok(BlockRet::Pending) => (Verdict::Pending, None, 0, false, None),
                Ok(BlockRet::WaitForFunc(_)) => (Verdict::WaitFunc, None, 0, false, None),
                Ok(BlockRet::EOF) => (Verdict::Eof, None, 0, false, None),
                Ok(BlockRet::WaitForStream(s, n)) => {
                    // Identify the stream: wait(0) never blocks and passes a yield point
                    // that carries the stream's identity.
                    let _ = s.wait(0);
                    let ys = rec::take();
                    // Ring streams pass Buffer::wait_for_read/write (carries the
                    // buffer id); packet streams only have address-carrying sites.
                    let id = ys
                        .iter()
                        .find_map(|r| match r.ev {
                            Ev::Yield { site: Site::WaitForRead | Site::WaitForWrite, id, .. } => Some(id),
                            _ => None,
                        })
                        .or_else(|| {
                            ys.iter().find_map(|r| match r.ev {
                                Ev::Yield { site: Site::NcWait | Site::StrongCount, addr, .. } => Some(addr),
                                _ => None,
                            })
                        });
                    let closed = s.closed();
                    rec::clear();
                    (Verdict::WaitStream, id, *n, closed, None)
                }
                Err(e) => (Verdict::Err, None, 0, false, Some(format!("{e}"))),
            };
            drop(ret);
            (out, evs, acted)
        });
        match r {
            Ok(((v, id, n, c, m), evs, acted)) => {
                interposed = acted;
                verdict = v;
                named_id = id;
                need = n;
                named_closed = c;
                msg = m;
                events = evs;
            }
            Err(p) => {
                verdict = Verdict::Panic;
                msg = Some(p);
                self.dead = true;
                if armed {
                    interposed = interpose_end();
                }
                events = rec::take();
            }
        }
        if verdict == Verdict::Err {
            self.dead = true;
        }
        let mut moved_in = vec![0usize; ni];
        let mut moved_out = vec![0usize; no];
        let mut inner = 0usize;
        // Last window handed to the block per stream, to bound its commits.
        let mut wlen: std::collections::HashMap<usize, usize> = std::collections::HashMap::new();
        let mut rlen: std::collections::HashMap<usize, usize> = std::collections::HashMap::new();
        let mut window_overrun: Option<String> = None;
        for r in &events {
            match r.ev {
                Ev::ReadOpen { id, start, end } if in_ids.contains(&id) => {
                    rlen.insert(id, end - start);
                }
                Ev::WriteOpen { id, start, end } if out_ids.contains(&id) => {
                    wlen.insert(id, end - start);
                }
                Ev::Consume { id, n, .. } => {
                    if let Some(i) = in_ids.iter().position(|&x| x == id) {
                        moved_in[i] += n;
                        if let Some(&l) = rlen.get(&id) {
                            if n > l && window_overrun.is_none() {
                                window_overrun = Some(format!("input {i}: consume({n}) but the read window handed out was {l} samples"));
                            }
                        }
                    } else if out_ids.contains(&id) {
                        // the harness as downstream neighbour
                    } else if n > 0 {
                        inner += 1;
                    }
                }
                Ev::Produce { id, n, .. } => {
                    if let Some(o) = out_ids.iter().position(|&x| x == id) {
                        moved_out[o] += n;
                        if let Some(&l) = wlen.get(&id) {
                            if n > l && window_overrun.is_none() {
                                window_overrun = Some(format!("output {o}: produce({n}) but the write window handed out was {l} samples"));
                            }
                        }
                    } else if in_ids.contains(&id) {
                        // the harness as upstream neighbour
                    } else if n > 0 {
                        inner += 1;
                    }
                }
                Ev::NcPopped { addr, got: true } => {
                    if let Some(i) = in_ids.iter().position(|&x| x == addr) {
                        moved_in[i] += 1;
                        self.nc_in_popped[i] += 1;
                    } else if out_ids.contains(&addr) {
                    } else {
                        inner += 1;
                    }
                }
                Ev::NcPushed { addr } => {
                    if let Some(o) = out_ids.iter().position(|&x| x == addr) {
                        moved_out[o] += 1;
                        self.nc_out_pushed[o] += 1;
                    } else if in_ids.contains(&addr) {
                    } else {
                        inner += 1;
                    }
                }
                _ => {}
            }
        }
        let named = named_id.and_then(|id| {
            in_ids
                .iter()
                .position(|&x| x == id)
                .map(|i| (true, i))
                .or_else(|| out_ids.iter().position(|&x| x == id).map(|o| (false, o)))
        });
        let handles_in: Vec<usize> = self.dut.ins.iter().map(|p| p.handles()).collect();
        let handles_out: Vec<usize> = self.dut.outs.iter().map(|p| p.handles()).collect();
        // A stream with both ends alive has exactly two handles when no window is live.
        let windows_leaked = verdict != Verdict::Panic
            && (self
                .dut
                .ins
                .iter()
                .zip(&handles_in)
                .any(|(p, &h)| !p.is_closed() && h > 2)
                || self
                    .dut
                    .outs
                    .iter()
                    .zip(&handles_out)
                    .any(|(p, &h)| !p.reader_dropped() && h > 2));
        let c = Call {
            verdict,
            named,
            need,
            named_closed,
            offered_in,
            offered_out,
            moved_in,
            moved_out,
            inner_moves: inner,
            msg,
            handles_in,
            handles_out,
            windows_leaked,
            interposed,
            window_overrun,
        };
        if self.last_calls.len() >= self.keep_calls {
            self.last_calls.remove(0);
        }
        self.last_calls.push(c.clone());
        c
    }

    pub fn feed(&mut self, i: usize, k: usize) -> usize {
        let n = self.dut.ins[i].feed(k);
        rec::clear();
        n
    }
    pub fn drain(&mut self, o: usize, j: usize) -> usize {
        let n = self.dut.outs[o].drain(j);
        rec::clear();
        n
    }
    pub fn all_fed(&self) -> bool {
        self.dut.ins.iter().all(|p| p.pending() == 0)
    }
    pub fn close_inputs(&mut self) {
        for p in self.dut.ins.iter_mut() {
            p.close();
        }
    }

    /// Call work() until `idle` consecutive calls moved nothing (or the block
    /// retired / died). Returns number of calls made.
    pub fn work_until_idle(&mut self, idle: usize, max_calls: usize) -> usize {
        let mut quiet = 0;
        let mut n = 0;
        while n < max_calls && !self.dead {
            let c = self.work();
            n += 1;
            if c.verdict == Verdict::Eof {
                break;
            }
            if c.moved_any() {
                quiet = 0;
            } else {
                quiet += 1;
                if quiet >= idle {
                    break;
                }
            }
        }
        n
    }

    /// Feed everything, close the inputs, and run to completion draining all
    /// outputs. Returns false if the call budget ran out while still moving.
    pub fn finish(&mut self, max_calls: usize) -> bool {
        let mut budget = max_calls;
        // A source without inputs may be infinite: bound the completion phase.
        let mut rounds_left = if self.dut.ins.is_empty() { 64 } else { usize::MAX };
        loop {
            if rounds_left == 0 || (self.dut.ins.is_empty() && self.dut.outs.iter().any(|o| o.collected_len() > 2_000_000)) {
                return true;
            }
            rounds_left -= 1;
            let mut progress = false;
            for i in 0..self.dut.ins.len() {
                if self.dut.ins[i].pending() > 0 && self.feed(i, usize::MAX / 4) > 0 {
                    progress = true;
                }
            }
            if self.all_fed() {
                self.close_inputs();
            }
            let n = self.work_until_idle(3, std::cmp::min(budget, 100_000));
            budget = budget.saturating_sub(n);
            for o in 0..self.dut.outs.len() {
                if self.drain(o, usize::MAX / 4) > 0 {
                    progress = true;
                }
            }
            if self.dead {
                return true;
            }
            if !progress {
                if self.dut.ins.iter().any(|p| !p.is_closed()) {
                    // Nothing moves any more although input is left over (e.g. the
                    // other input of a two-input block ended): end all inputs.
                    self.close_inputs();
                    continue;
                }
                return true;
            }
            if budget == 0 {
                return false;
            }
        }
    }

    pub fn outputs(&self) -> Vec<Data> {
        self.dut.outs.iter().map(|o| o.collected()).collect()
    }
    pub fn out_tags(&self) -> Vec<Vec<OutTag>> {
        self.dut.outs.iter().map(|o| o.tags().to_vec()).collect()
    }
    pub fn describe_last_calls(&self) -> Value {
        json!(self
            .last_calls
            .iter()
            .map(|c| format!(
                "{:?}{} offered_in={:?} offered_out={:?} moved_in={:?} moved_out={:?}{}",
                c.verdict,
                match c.named {
                    Some((true, i)) => format!("(in{i},{})", c.need),
                    Some((false, o)) => format!("(out{o},{})", c.need),
                    None if c.verdict == Verdict::WaitStream => format!("(other,{})", c.need),
                    None => String::new(),
                },
                c.offered_in,
                c.offered_out,
                c.moved_in,
                c.moved_out,
                c.msg.as_ref().map(|m| format!(" msg={m}")).unwrap_or_default()
            ))
            .collect::<Vec<_>>())
    }
}

/// Context handed to DUT factories.
#[derive(Clone, Debug)]
pub struct Ctx {
    /// Stream size in bytes for the scheduled run (the reference run uses the
    /// library default).
    pub stream_bytes: usize,
    /// Attach tags to the input (C12).
    pub tagged: bool,
    /// Upper bound for input length in units of the stream capacity (x100).
    pub max_len_pct: usize,
}

/// A schedule step, as recorded for replay/evidence.
#[derive(Clone, Debug)]
pub enum Step {
    Feed(usize, usize),
    Work(usize),
    Drain(usize, usize),
}

/// Drive `r` with a seeded adversarial schedule until all input is fed; then
/// finish. `on_call` sees every work() call; `on_drain` is called after every
/// drain step (prefix checks).
pub fn run_schedule(
    r: &mut Runner,
    rng: &mut Rng,
    on_call: &mut dyn FnMut(&mut Runner, &Call, &mut Rng),
    on_drain: &mut dyn FnMut(&Runner),
    steps_out: &mut Vec<Step>,
) -> bool {
    let ni = r.dut.ins.len();
    let no = r.dut.outs.len();
    // Phase styles.
    #[derive(Clone, Copy, PartialEq)]
    enum Style {
        Trickle,   // 1 sample at a time
        Small,     // 1..17
        Bulk,      // up to everything
        Starve,    // leave output full: no drains
        Mixed,
    }
    let mut style = Style::Mixed;
    let mut steps = 0usize;
    let max_steps = 6000;
    while steps < max_steps && !r.dead {
        if steps % 40 == 0 {
            style = *rng.pick(&[Style::Trickle, Style::Small, Style::Bulk, Style::Starve, Style::Mixed, Style::Mixed]);
        }
        steps += 1;
        let all_fed = r.all_fed();
        if all_fed && rng.chance(1, 3) {
            break;
        }
        let what = rng.below(100);
        if what < 35 && ni > 0 && !all_fed {
            let i = rng.below(ni);
            let k = match style {
                Style::Trickle => 1,
                Style::Small => rng.range(1, 17),
                Style::Bulk => usize::MAX / 4,
                _ => match rng.below(6) {
                    0 => 1,
                    1 => rng.range(2, 5),
                    2 => rng.range(1, 64),
                    3 => usize::MAX / 4,
                    _ => rng.range(1, std::cmp::max(1, r.dut.ins[i].capacity().min(1 << 20))),
                },
            };
            let n = r.feed(i, k);
            steps_out.push(Step::Feed(i, n));
        } else if what < 75 || no == 0 {
            let c = rng.range(1, 4);
            let mut done = 0;
            for _ in 0..c {
                if r.dead {
                    break;
                }
                if r.interpose.is_some() && rng.chance(1, 3) {
                    r.interpose_armed = true;
                }
                let call = r.work();
                done += 1;
                on_call(r, &call, rng);
                if call.verdict == Verdict::Eof {
                    break;
                }
            }
            steps_out.push(Step::Work(done));
        } else {
            if style == Style::Starve && rng.chance(4, 5) {
                continue;
            }
            let o = rng.below(no);
            let j = match style {
                Style::Trickle => 1,
                Style::Small => rng.range(1, 17),
                Style::Bulk => usize::MAX / 4,
                _ => match rng.below(6) {
                    0 => 1,
                    1 => rng.range(2, 5),
                    2 => rng.range(1, 400),
                    3 => usize::MAX / 4,
                    _ => rng.range(1, std::cmp::max(1, r.dut.outs[o].capacity().min(1 << 20))),
                },
            };
            let n = r.drain(o, j);
            steps_out.push(Step::Drain(o, n));
            on_drain(r);
        }
    }
    if r.dead {
        return true;
    }
    // Completion phase (still observed by on_call through last_calls is not
    // needed: verdict checks run on the scheduled part).
    r.finish(400_000)
}

/// Reference execution: default-size streams, all input at once.
pub fn run_reference(r: &mut Runner) -> bool {
    r.finish(400_000)
}
