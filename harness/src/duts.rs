//! Catalogue of blocks under test for the drip-feed engine, with their
//! executable specifications (C10) and tag expectations (C12).
//!
//! Every factory is a deterministic function of (rng, ctx): called twice with
//! equal rng state it builds the same block with the same input, once on
//! small streams (scheduled run) and once on default streams (reference run).
use crate::drip::*;
use crate::util::*;
use rustradio::block::Block;
use rustradio::blocks::*;
use rustradio::stream::{ReadStream, TagValue};
use rustradio::window::WindowType;
use serde_json::{Value, json};

pub type Spec = Box<dyn Fn(&[Data]) -> Vec<Data>>;
/// Expected output tags per output port, given input tags of every input port,
/// the input data and the actual output lengths.
pub type TagSpec = Box<dyn Fn(&[Vec<InTag>], &[Data], &[usize]) -> Vec<Vec<OutTag>>>;

pub struct Built {
    pub dut: Dut,
    pub spec: Option<Spec>,
    pub tagspec: Option<TagSpec>,
    /// Float outputs compared within this many ulps against the spec (0 = exact).
    pub spec_ulps: u32,
}

pub struct Entry {
    pub name: &'static str,
    pub build: fn(&mut Rng, &Ctx) -> Built,
    /// Smallest stream (bytes) on which the block can work at all.
    pub min_stream: usize,
}

// ---------------------------------------------------------------- generators

pub fn gen_len(rng: &mut Rng, ctx: &Ctx, elem: usize) -> usize {
    let cap = ctx.stream_bytes / elem;
    let max = std::cmp::max(1, cap * ctx.max_len_pct / 100);
    match rng.below(12) {
        0 => 0,
        1 => 1,
        2 => rng.range(2, 20),
        3 => cap.saturating_sub(1),
        4 => cap,
        5 => cap + 1,
        6 => 2 * cap + rng.range(0, 3),
        _ => rng.range(0, max),
    }
    .min(max)
}
pub fn gen_bits(rng: &mut Rng, n: usize) -> Vec<u8> {
    let mut v = Vec::with_capacity(n);
    let mut w = 0u64;
    for i in 0..n {
        if i % 64 == 0 {
            w = rng.next();
        }
        v.push((w & 1) as u8);
        w >>= 1;
    }
    v
}
pub fn gen_bytes(rng: &mut Rng, n: usize) -> Vec<u8> {
    (0..n).map(|_| rng.next() as u8).collect()
}
/// C15: when set, float generators mix in NaN, infinities, denormals and huge values.
pub static SPECIALS: std::sync::atomic::AtomicBool = std::sync::atomic::AtomicBool::new(false);

pub fn special_f32(rng: &mut Rng) -> f32 {
    match rng.below(14) {
        0 => f32::NAN,
        1 => f32::INFINITY,
        2 => f32::NEG_INFINITY,
        3 => f32::MAX,
        4 => f32::MIN,
        5 => f32::MIN_POSITIVE,
        6 => 1e-45,
        7 => -0.0,
        8 => 0.0,
        9 => 1e30,
        10 => -1e30,
        11 => f32::from_bits(rng.next() as u32),
        _ => rng.f32_unit(),
    }
}
fn one_f32(rng: &mut Rng) -> f32 {
    if SPECIALS.load(std::sync::atomic::Ordering::Relaxed) && rng.chance(1, 3) {
        special_f32(rng)
    } else {
        rng.f32_unit()
    }
}
pub fn gen_f32(rng: &mut Rng, n: usize) -> Vec<f32> {
    (0..n).map(|_| one_f32(rng)).collect()
}
pub fn gen_c32(rng: &mut Rng, n: usize) -> Vec<C32> {
    (0..n).map(|_| C32::new(one_f32(rng), one_f32(rng))).collect()
}
/// Slowly varying signal with zero crossings (for clock recovery blocks).
pub fn gen_wave(rng: &mut Rng, n: usize, sps: f32) -> Vec<f32> {
    let mut v = Vec::with_capacity(n);
    let mut level = 1.0f32;
    let mut left = 0.0f32;
    for _ in 0..n {
        if left <= 0.0 {
            if rng.chance(1, 2) {
                level = -level;
            }
            left += sps * (1.0 + 0.02 * rng.f32_unit());
        }
        left -= 1.0;
        if SPECIALS.load(std::sync::atomic::Ordering::Relaxed) && rng.chance(1, 20) {
            v.push(special_f32(rng));
            continue;
        }
        v.push(level * (0.8 + 0.1 * rng.f32_unit()));
    }
    v
}

/// Tags with unique ids, clustered at chunk-boundary-like positions.
pub fn gen_tags(rng: &mut Rng, n: usize, ctx: &Ctx, prefix: &str) -> Vec<InTag> {
    let mut t = Vec::new();
    if !ctx.tagged || n == 0 {
        return t;
    }
    let mut id = 0u64;
    let groups = rng.range(1, 12);
    for _ in 0..groups {
        let pos = match rng.below(6) {
            0 => 0,
            1 => n - 1,
            2 => rng.below(std::cmp::min(n, 64)),
            3 => {
                // near a multiple of a small power of two (likely split points)
                let m = 1usize << rng.range(4, 10);
                (rng.below(n / m + 1) * m + rng.below(3)).saturating_sub(1).min(n - 1)
            }
            _ => rng.below(n),
        };
        let cnt = if rng.chance(1, 4) { rng.range(2, 5) } else { 1 };
        for _ in 0..cnt {
            id += 1;
            let val = match rng.below(3) {
                0 => TagValue::U64(id),
                1 => TagValue::String(format!("v{id}")),
                _ => TagValue::Bool(id % 2 == 0),
            };
            t.push(InTag {
                pos,
                key: format!("{prefix}{id}"),
                val,
            });
        }
    }
    // Tags are a multiset: the same key and value may be attached twice, to one
    // sample or to neighbouring ones (a marker emitted by two upstream stages, a
    // repeated "burst" flag). Each copy has to arrive exactly once.
    if rng.chance(1, 3) {
        for _ in 0..rng.range(1, 3) {
            let mut twin = t[rng.below(t.len())].clone();
            if rng.chance(1, 2) && twin.pos + 1 < n {
                twin.pos += 1;
            }
            t.push(twin);
        }
    }
    t.sort_by_key(|x| x.pos);
    t
}

fn otag(t: &InTag, pos: u64) -> OutTag {
    OutTag {
        pos,
        key: t.key.clone(),
        val: tv_repr(&t.val),
    }
}

/// Tag expectation: first input's tags mapped through `f` (None = dropped).
fn tagmap(nouts: usize, f: impl Fn(usize) -> Option<u64> + 'static) -> TagSpec {
    Box::new(move |intags, _data, outlens| {
        let mut outs = Vec::new();
        for o in 0..nouts {
            let mut v: Vec<OutTag> = intags[0]
                .iter()
                .filter_map(|t| f(t.pos).filter(|p| *p < outlens[o] as u64).map(|p| otag(t, p)))
                .collect();
            v.sort();
            outs.push(v);
        }
        outs
    })
}

fn f32s(d: &Data) -> Vec<f32> {
    <f32 as Samp>::unwrap(d)
}
fn u8s(d: &Data) -> Vec<u8> {
    <u8 as Samp>::unwrap(d)
}
fn c32s(d: &Data) -> Vec<C32> {
    <C32 as Samp>::unwrap(d)
}
fn u32s(d: &Data) -> Vec<u32> {
    <u32 as Samp>::unwrap(d)
}

fn dut1<I: Samp, B: Block + 'static>(
    name: &str,
    params: Value,
    block: B,
    inp: CopyIn<I>,
    outs: Vec<Box<dyn OutPort>>,
) -> Dut {
    Dut {
        name: name.to_string(),
        params,
        block: Box::new(block),
        ins: vec![Box::new(inp)],
        outs,
        keeps_history: 0,
        cleanup: None,
    }
}

fn tagged_in<I: Samp>(rng: &mut Rng, ctx: &Ctx, data: Vec<I>) -> (CopyIn<I>, ReadStream<I>) {
    let n = data.len();
    let (mut p, r) = CopyIn::new(data);
    p.set_tags(gen_tags(rng, n, ctx, "t"));
    (p, r)
}

// ------------------------------------------------------------------- entries

fn b_add_const_f32(rng: &mut Rng, ctx: &Ctx) -> Built {
    let n = gen_len(rng, ctx, 4);
    let data = gen_f32(rng, n);
    let val = rng.f32_unit() * 3.0;
    let (inp, r) = tagged_in(rng, ctx, data);
    let (b, o) = AddConst::new(r, val);
    Built {
        dut: dut1("AddConst<f32>", json!({"val": val}), b, inp, vec![Box::new(CopyOut::new(o))]),
        spec: Some(Box::new(move |i| vec![Data::F32(f32s(&i[0]).iter().map(|x| x + val).collect())])),
        tagspec: Some(tagmap(1, |p| Some(p as u64))),
        spec_ulps: 0,
    }
}
fn b_add_const_fn(rng: &mut Rng, ctx: &Ctx) -> Built {
    let n = gen_len(rng, ctx, 8);
    let data = gen_c32(rng, n);
    let val = C32::new(rng.f32_unit(), rng.f32_unit());
    let (inp, r) = tagged_in(rng, ctx, data);
    let (b, o) = add_const(r, val);
    Built {
        dut: dut1("add_const<Complex>", json!({"val": [val.re, val.im]}), b, inp, vec![Box::new(CopyOut::new(o))]),
        spec: Some(Box::new(move |i| vec![Data::C32(c32s(&i[0]).iter().map(|x| x + val).collect())])),
        tagspec: Some(tagmap(1, |p| Some(p as u64))),
        spec_ulps: 0,
    }
}
fn b_multiply_const(rng: &mut Rng, ctx: &Ctx) -> Built {
    let n = gen_len(rng, ctx, 4);
    let data = gen_f32(rng, n);
    let val = rng.f32_unit() * 4.0;
    let (inp, r) = tagged_in(rng, ctx, data);
    let (b, o) = MultiplyConst::new(r, val);
    Built {
        dut: dut1("MultiplyConst<f32>", json!({"val": val}), b, inp, vec![Box::new(CopyOut::new(o))]),
        spec: Some(Box::new(move |i| vec![Data::F32(f32s(&i[0]).iter().map(|x| x * val).collect())])),
        tagspec: Some(tagmap(1, |p| Some(p as u64))),
        spec_ulps: 0,
    }
}
fn b_xor_const(rng: &mut Rng, ctx: &Ctx) -> Built {
    let n = gen_len(rng, ctx, 1);
    let data = gen_bytes(rng, n);
    let val = rng.next() as u8;
    let (inp, r) = tagged_in(rng, ctx, data);
    let (b, o) = XorConst::new(r, val);
    Built {
        dut: dut1("XorConst<u8>", json!({"val": val}), b, inp, vec![Box::new(CopyOut::new(o))]),
        spec: Some(Box::new(move |i| vec![Data::U8(u8s(&i[0]).iter().map(|x| x ^ val).collect())])),
        tagspec: Some(tagmap(1, |p| Some(p as u64))),
        spec_ulps: 0,
    }
}
fn b_binary_slicer(rng: &mut Rng, ctx: &Ctx) -> Built {
    let n = gen_len(rng, ctx, 4);
    let mut data = gen_f32(rng, n);
    for x in data.iter_mut() {
        if rng.chance(1, 10) {
            *x = *rng.pick(&[0.0, -0.0, f32::MIN_POSITIVE, -f32::MIN_POSITIVE, 1e-45]);
        }
    }
    let (inp, r) = tagged_in(rng, ctx, data);
    let (b, o) = BinarySlicer::new(r);
    Built {
        dut: dut1("BinarySlicer", json!({}), b, inp, vec![Box::new(CopyOut::new(o))]),
        spec: Some(Box::new(|i| vec![Data::U8(f32s(&i[0]).iter().map(|x| if *x > 0.0 { 1 } else { 0 }).collect())])),
        tagspec: Some(tagmap(1, |p| Some(p as u64))),
        spec_ulps: 0,
    }
}
fn b_complex_to_mag2(rng: &mut Rng, ctx: &Ctx) -> Built {
    let n = gen_len(rng, ctx, 8);
    let data = gen_c32(rng, n);
    let (inp, r) = tagged_in(rng, ctx, data);
    let (b, o) = ComplexToMag2::new(r);
    Built {
        dut: dut1("ComplexToMag2", json!({}), b, inp, vec![Box::new(CopyOut::new(o))]),
        spec: Some(Box::new(|i| vec![Data::F32(c32s(&i[0]).iter().map(|x| x.re * x.re + x.im * x.im).collect())])),
        tagspec: Some(tagmap(1, |p| Some(p as u64))),
        spec_ulps: 0,
    }
}
fn b_nrzi(rng: &mut Rng, ctx: &Ctx) -> Built {
    let n = gen_len(rng, ctx, 1);
    let data = gen_bits(rng, n);
    let (inp, r) = tagged_in(rng, ctx, data);
    let (b, o) = NrziDecode::new(r);
    Built {
        dut: dut1("NrziDecode", json!({}), b, inp, vec![Box::new(CopyOut::new(o))]),
        spec: Some(Box::new(|i| {
            // NRZI-S: a toggle is 0, no change is 1; level before the stream is 0.
            let v = u8s(&i[0]);
            let mut last = 0u8;
            let mut out = Vec::new();
            for b in v {
                out.push(if b == last { 1 } else { 0 });
                last = b;
            }
            vec![Data::U8(out)]
        })),
        tagspec: Some(tagmap(1, |p| Some(p as u64))),
        spec_ulps: 0,
    }
}
fn b_descrambler(rng: &mut Rng, ctx: &Ctx) -> Built {
    let n = gen_len(rng, ctx, 1);
    let data = gen_bits(rng, n);
    let g3ruh = rng.chance(1, 2);
    let (mask, seed, len) = if g3ruh {
        (0x21u64, 0u64, 16u8)
    } else {
        let len = rng.range(1, 40) as u8;
        (rng.next() & ((1u64 << (len + 1)) - 1), rng.next() & ((1u64 << (len + 1)) - 1), len)
    };
    let (inp, r) = tagged_in(rng, ctx, data);
    let (b, o) = if g3ruh { Descrambler::new_g3ruh(r) } else { Descrambler::new(r, mask, seed, len) };
    Built {
        dut: dut1("Descrambler", json!({"mask": mask, "seed": seed, "len": len, "g3ruh": g3ruh}), b, inp, vec![Box::new(CopyOut::new(o))]),
        spec: Some(Box::new(move |i| {
            // Multiplicative descrambler: register holds previous input bits,
            // newest at bit `len`; output = in xor parity(reg & mask).
            let v = u8s(&i[0]);
            let mut reg = seed;
            let mut out = Vec::new();
            for b in v {
                out.push(((reg & mask).count_ones() as u8 & 1) ^ b);
                reg = (reg >> 1) | ((b as u64) << len);
            }
            vec![Data::U8(out)]
        })),
        tagspec: Some(tagmap(1, |p| Some(p as u64))),
        spec_ulps: 0,
    }
}
fn cac_spec(v: &[u8], code: &[u8], allowed: usize) -> (Vec<u8>, Vec<usize>) {
    // Sliding window of the last code.len() bits (zeros before the stream).
    let l = code.len();
    let mut out = Vec::new();
    let mut diffs = Vec::new();
    for i in 0..v.len() {
        let mut d = 0;
        for k in 0..l {
            // window position k holds input index i + 1 - l + k
            let idx = i as isize + 1 - l as isize + k as isize;
            let bit = if idx < 0 { 0 } else { v[idx as usize] };
            if bit != code[k] {
                d += 1;
            }
        }
        out.push(if d <= allowed { 1 } else { 0 });
        diffs.push(d);
    }
    (out, diffs)
}
fn gen_code_and_bits(rng: &mut Rng, ctx: &Ctx) -> (Vec<u8>, usize, Vec<u8>) {
    let l = rng.range(0, 16);
    let code = gen_bits(rng, l);
    let allowed = rng.range(0, 2);
    let n = gen_len(rng, ctx, 1);
    let mut data = gen_bits(rng, n);
    let mut code = code;
    if rng.chance(1, 4) {
        // The streams are bytes: the documented comparison is equality of the bytes,
        // whatever their values (a 3 is neither a 1 nor a 0).
        for b in data.iter_mut().chain(code.iter_mut()) {
            if rng.chance(1, 3) {
                *b = *rng.pick(&[2u8, 3, 255, 254, 128, 129]);
            }
        }
    }
    // plant the code a few times
    if l > 0 && n > l {
        for _ in 0..rng.range(0, 6) {
            let at = rng.below(n - l);
            data[at..at + l].copy_from_slice(&code);
        }
    }
    (code, allowed, data)
}
fn b_cac(rng: &mut Rng, ctx: &Ctx) -> Built {
    let (code, allowed, data) = gen_code_and_bits(rng, ctx);
    let (inp, r) = tagged_in(rng, ctx, data);
    let (b, o) = CorrelateAccessCode::new(r, code.clone(), allowed);
    let c2 = code.clone();
    Built {
        dut: dut1("CorrelateAccessCode", json!({"code": code, "allowed_diffs": allowed}), b, inp, vec![Box::new(CopyOut::new(o))]),
        spec: Some(Box::new(move |i| vec![Data::U8(cac_spec(&u8s(&i[0]), &c2, allowed).0)])),
        tagspec: Some(tagmap(1, |p| Some(p as u64))),
        spec_ulps: 0,
    }
}
fn b_cac_tag(rng: &mut Rng, ctx: &Ctx) -> Built {
    let (code, allowed, data) = gen_code_and_bits(rng, ctx);
    let (inp, r) = tagged_in(rng, ctx, data);
    let (b, o) = CorrelateAccessCodeTag::new(r, code.clone(), "sync", allowed);
    let c2 = code.clone();
    Built {
        dut: dut1("CorrelateAccessCodeTag", json!({"code": code, "allowed_diffs": allowed}), b, inp, vec![Box::new(CopyOut::new(o))]),
        spec: Some(Box::new(|i| vec![i[0].clone()])),
        tagspec: Some(Box::new(move |intags, data, outlens| {
            let v = u8s(&data[0]);
            let (hits, diffs) = cac_spec(&v, &c2, allowed);
            let mut out: Vec<OutTag> = intags[0].iter().filter(|t| t.pos < outlens[0]).map(|t| otag(t, t.pos as u64)).collect();
            for (i, h) in hits.iter().enumerate() {
                if *h == 1 && i < outlens[0] {
                    out.push(OutTag { pos: i as u64, key: "sync".into(), val: tv_repr(&TagValue::U64(diffs[i] as u64)) });
                }
            }
            out.sort();
            vec![out]
        })),
        spec_ulps: 0,
    }
}
fn b_quad_demod(rng: &mut Rng, ctx: &Ctx) -> Built {
    let n = gen_len(rng, ctx, 8);
    let data = gen_c32(rng, n);
    let gain = 0.5 + rng.f32_unit().abs() * 2.0;
    let (inp, r) = tagged_in(rng, ctx, data);
    let (b, o) = QuadratureDemod::new(r, gain);
    Built {
        dut: dut1("QuadratureDemod", json!({"gain": gain}), b, inp, vec![Box::new(CopyOut::new(o))]),
        spec: None,
        tagspec: Some(tagmap(1, |p| Some(p as u64))),
        spec_ulps: 0,
    }
}
fn b_fastfm(rng: &mut Rng, ctx: &Ctx) -> Built {
    let n = gen_len(rng, ctx, 8);
    let data = gen_c32(rng, n);
    let (inp, r) = tagged_in(rng, ctx, data);
    let (b, o) = FastFM::new(r);
    Built {
        dut: dut1("FastFM", json!({}), b, inp, vec![Box::new(CopyOut::new(o))]),
        spec: None,
        tagspec: Some(tagmap(1, |p| Some(p as u64))),
        spec_ulps: 0,
    }
}
fn b_iir_f32(rng: &mut Rng, ctx: &Ctx) -> Built {
    let n = gen_len(rng, ctx, 4);
    let data = gen_f32(rng, n);
    let alpha = rng.f32_unit().abs();
    let (inp, r) = tagged_in(rng, ctx, data);
    let (b, o) = SinglePoleIirFilter::new(r, alpha).expect("alpha in range");
    Built {
        dut: dut1("SinglePoleIirFilter<f32>", json!({"alpha": alpha}), b, inp, vec![Box::new(CopyOut::new(o))]),
        spec: None,
        tagspec: Some(tagmap(1, |p| Some(p as u64))),
        spec_ulps: 0,
    }
}
fn b_map(rng: &mut Rng, ctx: &Ctx) -> Built {
    let n = gen_len(rng, ctx, 4);
    let data: Vec<u32> = (0..n).map(|_| rng.next() as u32).collect();
    let k = rng.next() as u32 | 1;
    let (inp, r) = tagged_in(rng, ctx, data);
    let (b, o) = MapBuilder::new(r, move |x: u32| (x.wrapping_mul(k) >> 8) as u8).name("verif-map").build();
    Built {
        dut: dut1("Map<u32,u8>", json!({"k": k}), b, inp, vec![Box::new(CopyOut::new(o))]),
        spec: Some(Box::new(move |i| vec![Data::U8(u32s(&i[0]).iter().map(|x| (x.wrapping_mul(k) >> 8) as u8).collect())])),
        tagspec: Some(tagmap(1, |p| Some(p as u64))),
        spec_ulps: 0,
    }
}
fn b_tee(rng: &mut Rng, ctx: &Ctx) -> Built {
    let n = gen_len(rng, ctx, 1);
    let data = gen_bytes(rng, n);
    let (inp, r) = tagged_in(rng, ctx, data);
    let (b, o1, o2) = Tee::new(r);
    Built {
        dut: dut1("Tee<u8>", json!({}), b, inp, vec![Box::new(CopyOut::new(o1)), Box::new(CopyOut::new(o2))]),
        spec: Some(Box::new(|i| vec![i[0].clone(), i[0].clone()])),
        tagspec: Some(tagmap(2, |p| Some(p as u64))),
        spec_ulps: 0,
    }
}

fn dut2<A: Samp, Bt: Samp, B: Block + 'static>(
    name: &str,
    params: Value,
    block: B,
    a: CopyIn<A>,
    b: CopyIn<Bt>,
    outs: Vec<Box<dyn OutPort>>,
) -> Dut {
    Dut {
        name: name.to_string(),
        params,
        block: Box::new(block),
        ins: vec![Box::new(a), Box::new(b)],
        outs,
        keeps_history: 0,
        cleanup: None,
    }
}
fn two_lens(rng: &mut Rng, ctx: &Ctx, elem: usize) -> (usize, usize) {
    let a = gen_len(rng, ctx, elem);
    let b = if rng.chance(1, 2) { a } else { gen_len(rng, ctx, elem) };
    (a, b)
}
fn b_add(rng: &mut Rng, ctx: &Ctx) -> Built {
    let (na, nb) = two_lens(rng, ctx, 4);
    let da = gen_f32(rng, na);
    let db = gen_f32(rng, nb);
    let (ia, ra) = tagged_in(rng, ctx, da);
    let (mut ib, rb) = CopyIn::new(db);
    ib.set_tags(gen_tags(rng, nb, ctx, "second"));
    let (b, o) = Add::new(ra, rb);
    Built {
        dut: dut2("Add<f32>", json!({}), b, ia, ib, vec![Box::new(CopyOut::new(o))]),
        spec: Some(Box::new(|i| {
            let (a, b) = (f32s(&i[0]), f32s(&i[1]));
            vec![Data::F32(a.iter().zip(b.iter()).map(|(x, y)| x + y).collect())]
        })),
        tagspec: Some(tagmap(1, |p| Some(p as u64))),
        spec_ulps: 0,
    }
}
fn b_xor(rng: &mut Rng, ctx: &Ctx) -> Built {
    let (na, nb) = two_lens(rng, ctx, 1);
    let da = gen_bytes(rng, na);
    let db = gen_bytes(rng, nb);
    let (ia, ra) = tagged_in(rng, ctx, da);
    let (ib, rb) = CopyIn::new(db);
    let (b, o) = Xor::new(ra, rb);
    Built {
        dut: dut2("Xor<u8>", json!({}), b, ia, ib, vec![Box::new(CopyOut::new(o))]),
        spec: Some(Box::new(|i| {
            let (a, b) = (u8s(&i[0]), u8s(&i[1]));
            vec![Data::U8(a.iter().zip(b.iter()).map(|(x, y)| x ^ y).collect())]
        })),
        tagspec: Some(tagmap(1, |p| Some(p as u64))),
        spec_ulps: 0,
    }
}
fn b_float_to_complex(rng: &mut Rng, ctx: &Ctx) -> Built {
    let (na, nb) = two_lens(rng, ctx, 4);
    let da = gen_f32(rng, na);
    let db = gen_f32(rng, nb);
    let (ia, ra) = tagged_in(rng, ctx, da);
    let (ib, rb) = CopyIn::new(db);
    let (b, o) = FloatToComplex::new(ra, rb);
    Built {
        dut: dut2("FloatToComplex", json!({}), b, ia, ib, vec![Box::new(CopyOut::new(o))]),
        spec: Some(Box::new(|i| {
            let (a, b) = (f32s(&i[0]), f32s(&i[1]));
            vec![Data::C32(a.iter().zip(b.iter()).map(|(x, y)| C32::new(*x, *y)).collect())]
        })),
        tagspec: Some(tagmap(1, |p| Some(p as u64))),
        spec_ulps: 0,
    }
}
fn b_burst_tagger(rng: &mut Rng, ctx: &Ctx) -> Built {
    let (na, nb) = two_lens(rng, ctx, 4);
    let da: Vec<u32> = (0..na as u32).collect();
    // trigger: piecewise constant around the threshold
    let thr = rng.f32_unit() * 0.5;
    let mut db = Vec::with_capacity(nb);
    let mut lvl = thr - 0.3;
    for _ in 0..nb {
        if rng.chance(1, 40) {
            lvl = if lvl > thr { thr - 0.3 } else { thr + 0.3 };
        }
        db.push(if rng.chance(1, 50) { thr } else { lvl });
    }
    let (ia, ra) = tagged_in(rng, ctx, da);
    let (ib, rb) = CopyIn::new(db);
    let (b, o) = BurstTagger::new(ra, rb, thr, "burst");
    Built {
        dut: dut2("BurstTagger<u32>", json!({"threshold": thr}), b, ia, ib, vec![Box::new(CopyOut::new(o))]),
        spec: Some(Box::new(|i| {
            let a = u32s(&i[0]);
            let n = std::cmp::min(a.len(), i[1].len());
            vec![Data::U32(a[..n].to_vec())]
        })),
        tagspec: Some(Box::new(move |intags, data, outlens| {
            let trig = f32s(&data[1]);
            let mut out: Vec<OutTag> = intags[0].iter().filter(|t| t.pos < outlens[0]).map(|t| otag(t, t.pos as u64)).collect();
            let mut last = false;
            for (i, t) in trig.iter().enumerate().take(outlens[0]) {
                let cur = *t > thr;
                if cur != last {
                    out.push(OutTag { pos: i as u64, key: "burst".into(), val: tv_repr(&TagValue::Bool(cur)) });
                }
                last = cur;
            }
            out.sort();
            vec![out]
        })),
        spec_ulps: 0,
    }
}
fn b_skip(rng: &mut Rng, ctx: &Ctx) -> Built {
    let n = gen_len(rng, ctx, 4);
    let data: Vec<u32> = (0..n as u32).collect();
    let skip = *rng.pick(&[0usize, 0, 1, 2, 7, 70, 1000, 1024, 5000]);
    let skip = if rng.chance(1, 4) { rng.range(0, 70) } else { skip };
    let (inp, r) = tagged_in(rng, ctx, data);
    let (b, o) = Skip::new(r, skip);
    Built {
        dut: dut1("Skip<u32>", json!({"skip": skip}), b, inp, vec![Box::new(CopyOut::new(o))]),
        spec: Some(Box::new(move |i| {
            let v = u32s(&i[0]);
            vec![Data::U32(v.iter().skip(skip).copied().collect())]
        })),
        tagspec: Some(tagmap(1, move |p| if p >= skip { Some((p - skip) as u64) } else { None })),
        spec_ulps: 0,
    }
}
fn b_delay(rng: &mut Rng, ctx: &Ctx) -> Built {
    let n = gen_len(rng, ctx, 4);
    let data: Vec<u32> = (1..=n as u32).collect();
    // boundary values relative to the capacity of the streams of this case
    let cap = std::cmp::max(2, ctx.stream_bytes / 4);
    let delay = if rng.chance(1, 2) { rng.range(0, 70) } else { *rng.pick(&[0usize, 1, 3, 500, cap - 1, cap, cap, cap + 1, 3000]) };
    let (inp, r) = tagged_in(rng, ctx, data);
    let (b, o) = Delay::new(r, delay);
    Built {
        dut: dut1("Delay<u32>", json!({"delay": delay}), b, inp, vec![Box::new(CopyOut::new(o))]),
        spec: Some(Box::new(move |i| {
            // d zeros, then the input. (With an empty input nothing forces the
            // zeros out: the block waits for input first; accept both.)
            let v = u32s(&i[0]);
            let mut out = vec![0u32; delay];
            out.extend(v);
            vec![Data::U32(out)]
        })),
        tagspec: Some(tagmap(1, move |p| Some((p + delay) as u64))),
        spec_ulps: 0,
    }
}
fn b_resampler(rng: &mut Rng, ctx: &Ctx) -> Built {
    let n = gen_len(rng, ctx, 4);
    let data: Vec<u32> = (0..n as u32).collect();
    let (interp, deci) = (rng.range(1, 12), rng.range(1, 12));
    let (inp, r) = CopyIn::new(data);
    let (b, o) = RationalResampler::new(r, interp, deci).expect("resampler");
    Built {
        dut: dut1("RationalResampler<u32>", json!({"interp": interp, "deci": deci}), b, inp, vec![Box::new(CopyOut::new(o))]),
        spec: Some(Box::new(move |i| {
            let v = u32s(&i[0]);
            let count = (v.len() * interp).div_ceil(deci);
            vec![Data::U32((0..count).map(|k| v[k * deci / interp]).collect())]
        })),
        tagspec: None, // documented: tags not retained
        spec_ulps: 0,
    }
}
fn b_rtlsdr_decode(rng: &mut Rng, ctx: &Ctx) -> Built {
    let n = gen_len(rng, ctx, 1);
    let data = gen_bytes(rng, n);
    let (inp, r) = CopyIn::new(data);
    let (b, o) = RtlSdrDecode::new(r);
    Built {
        dut: dut1("RtlSdrDecode", json!({}), b, inp, vec![Box::new(CopyOut::new(o))]),
        spec: Some(Box::new(|i| {
            let v = u8s(&i[0]);
            vec![Data::C32(
                v.chunks_exact(2)
                    .map(|e| C32::new((e[0] as f32 - 127.0) * 0.008, (e[1] as f32 - 127.0) * 0.008))
                    .collect(),
            )]
        })),
        tagspec: None,
        spec_ulps: 1,
    }
}
fn gen_taps_f32(rng: &mut Rng, n: usize) -> Vec<f32> {
    (0..n).map(|_| rng.f32_unit()).collect()
}
fn b_fir_f32(rng: &mut Rng, ctx: &Ctx) -> Built {
    let n = gen_len(rng, ctx, 4);
    let data = gen_f32(rng, n);
    let ntaps = if rng.chance(1, 3) { rng.range(1, 4) } else { rng.range(1, 80) };
    let taps = gen_taps_f32(rng, ntaps);
    let deci = if rng.chance(1, 2) { 1 } else { rng.range(1, 8) };
    let (inp, r) = tagged_in(rng, ctx, data);
    let (b, o) = FirFilterBuilder::new(&taps).deci(deci).build(r);
    let mut dut = dut1("FirFilter<f32>", json!({"ntaps": ntaps, "deci": deci}), b, inp, vec![Box::new(CopyOut::new(o))]);
    dut.keeps_history = ntaps + deci - 2;
    Built {
        dut,
        spec: None,
        tagspec: Some(tagmap(1, move |p| Some((p / deci) as u64))),
        spec_ulps: 0,
    }
}
fn b_fir_c32(rng: &mut Rng, ctx: &Ctx) -> Built {
    let n = gen_len(rng, ctx, 8);
    let data = gen_c32(rng, n);
    let ntaps = rng.range(1, 40);
    let taps = gen_c32(rng, ntaps);
    let deci = if rng.chance(1, 2) { 1 } else { rng.range(1, 5) };
    let (inp, r) = tagged_in(rng, ctx, data);
    let (b, o) = FirFilterBuilder::new(&taps).deci(deci).build(r);
    let mut dut = dut1("FirFilter<Complex>", json!({"ntaps": ntaps, "deci": deci}), b, inp, vec![Box::new(CopyOut::new(o))]);
    dut.keeps_history = ntaps + deci - 2;
    Built {
        dut,
        spec: None,
        tagspec: Some(tagmap(1, move |p| Some((p / deci) as u64))),
        spec_ulps: 0,
    }
}
fn fft_taps_for(rng: &mut Rng, ctx: &Ctx, elem: usize) -> usize {
    // nsamples = fft_size - ntaps must fit the stream.
    let cap = ctx.stream_bytes / elem;
    loop {
        let ntaps = rng.range(1, 120);
        let mut n = 1;
        while n < ntaps {
            n <<= 1;
        }
        let fft = 2 * n;
        if fft - ntaps <= cap {
            return ntaps;
        }
    }
}
fn b_fft_filter(rng: &mut Rng, ctx: &Ctx) -> Built {
    let n = gen_len(rng, ctx, 8);
    let data = gen_c32(rng, n);
    let ntaps = fft_taps_for(rng, ctx, 8);
    let taps = gen_c32(rng, ntaps);
    let (inp, r) = tagged_in(rng, ctx, data);
    let (b, o) = FftFilter::new(r, &taps);
    Built {
        dut: dut1("FftFilter", json!({"ntaps": ntaps}), b, inp, vec![Box::new(CopyOut::new(o))]),
        spec: None,
        tagspec: Some(tagmap(1, |p| Some(p as u64))),
        spec_ulps: 0,
    }
}
fn b_fft_filter_float(rng: &mut Rng, ctx: &Ctx) -> Built {
    let n = gen_len(rng, ctx, 8);
    let data = gen_f32(rng, n);
    let ntaps = fft_taps_for(rng, ctx, 8);
    let taps = gen_taps_f32(rng, ntaps);
    let (inp, r) = tagged_in(rng, ctx, data);
    let (b, o) = FftFilterFloat::new(r, &taps);
    Built {
        dut: dut1("FftFilterFloat", json!({"ntaps": ntaps}), b, inp, vec![Box::new(CopyOut::new(o))]),
        spec: None,
        tagspec: Some(tagmap(1, |p| Some(p as u64))),
        spec_ulps: 0,
    }
}
fn b_hilbert(rng: &mut Rng, ctx: &Ctx) -> Built {
    let n = gen_len(rng, ctx, 8);
    let data = gen_f32(rng, n);
    let ntaps = rng.range(1, 40) * 2 + 1;
    let (inp, r) = tagged_in(rng, ctx, data);
    let (b, o) = Hilbert::new(r, ntaps, &WindowType::Hamming);
    Built {
        dut: dut1("Hilbert", json!({"ntaps": ntaps}), b, inp, vec![Box::new(CopyOut::new(o))]),
        spec: None,
        tagspec: Some(tagmap(1, |p| Some(p as u64))),
        spec_ulps: 0,
    }
}
fn b_au_encode(rng: &mut Rng, ctx: &Ctx) -> Built {
    let n = gen_len(rng, ctx, 4);
    let mut data = gen_f32(rng, n);
    for x in data.iter_mut() {
        if rng.chance(1, 20) {
            *x *= 3.0; // beyond [-1,1]: saturates
        }
    }
    let rate = *rng.pick(&[8000u32, 44100, 48000]);
    let (inp, r) = CopyIn::new(data);
    let (b, o) = AuEncode::new(r, rustradio::au::Encoding::Pcm16, rate, 1);
    Built {
        dut: dut1("AuEncode", json!({"rate": rate}), b, inp, vec![Box::new(CopyOut::new(o))]),
        spec: Some(Box::new(move |i| {
            let v = f32s(&i[0]);
            let mut out = Vec::new();
            out.extend(0x2e736e64u32.to_be_bytes());
            out.extend(28u32.to_be_bytes());
            out.extend(0xffffffffu32.to_be_bytes());
            out.extend(3u32.to_be_bytes());
            out.extend(rate.to_be_bytes());
            out.extend(1u32.to_be_bytes());
            out.extend([0u8; 4]);
            for x in v {
                // PCM16: truncate(clamp(x * 32767))
                let s = (x * 32767.0).clamp(-32768.0, 32767.0) as i16;
                out.extend(s.to_be_bytes());
            }
            vec![Data::U8(out)]
        })),
        tagspec: None,
        spec_ulps: 0,
    }
}
fn b_au_decode(rng: &mut Rng, ctx: &Ctx) -> Built {
    let n = gen_len(rng, ctx, 1) & !1usize;
    let rate = 44100u32;
    let extra = *rng.pick(&[0usize, 0, 4, 8, 100]);
    let mut bytes = Vec::new();
    bytes.extend(0x2e736e64u32.to_be_bytes());
    bytes.extend((24 + extra as u32).to_be_bytes());
    bytes.extend(0xffffffffu32.to_be_bytes());
    bytes.extend(3u32.to_be_bytes());
    bytes.extend(rate.to_be_bytes());
    bytes.extend(1u32.to_be_bytes());
    bytes.extend(vec![0u8; extra]);
    let hdr = bytes.len();
    bytes.extend(gen_bytes(rng, n));
    if rng.chance(1, 4) {
        bytes.push(rng.next() as u8); // dangling half sample
    }
    let (inp, r) = CopyIn::new(bytes);
    let (b, o) = AuDecode::new(r, rate);
    Built {
        dut: dut1("AuDecode", json!({"rate": rate, "annotation_bytes": extra}), b, inp, vec![Box::new(CopyOut::new(o))]),
        spec: Some(Box::new(move |i| {
            let v = u8s(&i[0]);
            vec![Data::F32(
                v[hdr..]
                    .chunks_exact(2)
                    .map(|c| i16::from_be_bytes([c[0], c[1]]) as f32 / 32767.0)
                    .collect(),
            )]
        })),
        tagspec: None,
        spec_ulps: 0,
    }
}
fn b_symbol_sync(rng: &mut Rng, ctx: &Ctx) -> Built {
    use rustradio::iir_filter::IirFilter;
    use rustradio::symbol_sync::TedZeroCrossing;
    let n = gen_len(rng, ctx, 4) * 3;
    let sps = *rng.pick(&[2.5f32, 4.0, 5.2, 10.0, 36.75]);
    let data = gen_wave(rng, n, sps);
    let with_clock = rng.chance(1, 3);
    let (inp, r) = CopyIn::new(data);
    let (mut b, o) = SymbolSync::new(r, sps, 0.5, Box::new(TedZeroCrossing::new()), Box::new(IirFilter::new(&[0.5, 0.5])));
    let mut outs: Vec<Box<dyn OutPort>> = vec![Box::new(CopyOut::new(o))];
    if with_clock {
        outs.push(Box::new(CopyOut::new(b.out_clock().expect("clock"))));
    }
    Built {
        dut: dut1(if with_clock { "SymbolSync+clock" } else { "SymbolSync" }, json!({"sps": sps, "clock_output": with_clock}), b, inp, outs),
        spec: None,
        tagspec: None,
        spec_ulps: 0,
    }
}
fn b_zero_crossing(rng: &mut Rng, ctx: &Ctx) -> Built {
    let n = gen_len(rng, ctx, 4) * 3;
    let sps = *rng.pick(&[2.5f32, 4.0, 5.2, 10.4]);
    let data = gen_wave(rng, n, sps);
    let with_clock = rng.chance(1, 3);
    let (inp, r) = CopyIn::new(data);
    let (mut b, o) = ZeroCrossing::new(r, sps, 0.1);
    let mut outs: Vec<Box<dyn OutPort>> = vec![Box::new(CopyOut::new(o))];
    if with_clock {
        outs.push(Box::new(CopyOut::new(b.out_clock())));
    }
    Built {
        dut: dut1(if with_clock { "ZeroCrossing+clock" } else { "ZeroCrossing" }, json!({"sps": sps, "clock_output": with_clock}), b, inp, outs),
        spec: None,
        tagspec: None,
        spec_ulps: 0,
    }
}
fn b_hdlc(rng: &mut Rng, ctx: &Ctx) -> Built {
    let n = gen_len(rng, ctx, 1);
    // Random bits with embedded valid frames.
    let mut bits = gen_bits(rng, n / 4);
    while bits.len() < n {
        let plen = rng.range(0, 40);
        let payload = gen_bytes(rng, plen);
        bits.extend(crate::hdlc::frame_bits(&payload, rng.range(1, 3), true));
        if rng.chance(1, 3) {
            let k = rng.range(0, 30);
            bits.extend(gen_bits(rng, k));
        }
    }
    bits.truncate(n);
    let (min, max) = (*rng.pick(&[2usize, 5, 10]), *rng.pick(&[20usize, 50, 1500]));
    let (inp, r) = CopyIn::new(bits);
    let (b, o) = HdlcDeframer::new(r, min, max);
    Built {
        dut: dut1("HdlcDeframer", json!({"min": min, "max": max}), b, inp, vec![Box::new(PktOut::new(o))]),
        spec: None,
        tagspec: None,
        spec_ulps: 0,
    }
}
fn b_il2p(rng: &mut Rng, ctx: &Ctx) -> Built {
    let n = gen_len(rng, ctx, 1);
    let bits = gen_bits(rng, n);
    let (mut inp, r) = CopyIn::new(bits);
    // "sync" tags mark frame starts
    let mut tags = Vec::new();
    if n > 0 {
        for _ in 0..rng.range(0, 6) {
            tags.push(InTag { pos: rng.below(n), key: "sync".into(), val: TagValue::Bool(true) });
        }
    }
    if ctx.tagged && n > 0 {
        // tags that are none of the deframer's business, also on and right before the sync samples
        let sync_at: Vec<usize> = tags.iter().map(|t| t.pos).collect();
        for _ in 0..rng.range(0, 6) {
            let pos = if !sync_at.is_empty() && rng.chance(1, 2) { rng.pick(&sync_at).saturating_sub(rng.below(3)) } else { rng.below(n) };
            tags.push(InTag { pos, key: (*rng.pick(&["burst", "VectorSource::start", "x"])).into(), val: TagValue::U64(rng.next() % 7) });
        }
        if rng.chance(1, 2) {
            tags.sort_by_key(|t| t.pos);
        }
    }
    inp.set_tags(tags);
    let (b, o) = Il2pDeframer::new(r);
    Built {
        dut: dut1("Il2pDeframer", json!({}), b, inp, vec![Box::new(PktOut::new(o))]),
        spec: None,
        tagspec: None,
        spec_ulps: 0,
    }
}
fn b_stream_to_pdu(rng: &mut Rng, ctx: &Ctx) -> Built {
    let n = gen_len(rng, ctx, 1);
    let data = gen_bytes(rng, n);
    let (mut inp, r) = CopyIn::new(data);
    let max_size = *rng.pick(&[5usize, 50, 400, 10_000]);
    let tail = rng.range(0, 12);
    // Well-formed: start(true) ... end(false), non-overlapping, end after start,
    // next start only after the previous burst's tail has passed.
    let mut tags = Vec::new();
    let mut pos = 0usize;
    let mut bursts: Vec<(usize, usize)> = Vec::new();
    // Some inputs also carry bursts longer than max_size. What becomes of such
    // a burst's tail is not specified by the documentation, so these inputs
    // have no executable specification (C10 skips them); chunking independence
    // (C08) and the verdict rules (C09) are judged on them all the same.
    let oversize_input = rng.chance(1, 5);
    let mut has_oversize = false;
    while n > 0 && pos + 2 < n && bursts.len() < 20 {
        // The earliest legal start is the sample on which the previous PDU is
        // handed off (previous end + tail + 1): back-to-back bursts are routine.
        let start = pos + if rng.chance(1, 3) { 0 } else { rng.range(0, 50) };
        let fit = std::cmp::min(300, max_size.saturating_sub(tail).max(1));
        let len = if oversize_input && rng.chance(1, 3) { rng.range(fit + 1, fit + 1 + 2 * max_size.min(200)) } else { rng.range(1, fit) };
        let end = start + len;
        if end >= n {
            break;
        }
        if len > fit {
            has_oversize = true;
        }
        tags.push(InTag { pos: start, key: "burst".into(), val: TagValue::Bool(true) });
        tags.push(InTag { pos: end, key: "burst".into(), val: TagValue::Bool(false) });
        bursts.push((start, end));
        pos = end + tail + 1;
    }
    // unrelated tags
    if n > 0 {
        for k in 0..rng.range(0, 4) {
            tags.push(InTag { pos: rng.below(n), key: format!("other{k}"), val: TagValue::U64(k as u64) });
        }
    }
    inp.set_tags(tags);
    let (b, o) = StreamToPdu::new(r, "burst", max_size, tail);
    Built {
        dut: dut1("StreamToPdu<u8>", json!({"max_size": max_size, "tail": tail, "bursts": bursts.len(), "oversize": has_oversize}), b, inp, vec![Box::new(PktOut::new(o))]),
        spec: if has_oversize { None } else { Some(Box::new(move |i| {
            // A burst is the samples from the start tag up to (not including)
            // the end tag's sample, followed by `tail` samples after... the
            // implementation's documented behaviour: start sample included, the
            // sample carrying the end tag excluded, then `tail` further samples;
            // the PDU is emitted when the sample after the tail arrives. Bursts
            // longer than max_size are discarded.
            let v = u8s(&i[0]);
            let mut out = Vec::new();
            for (s, e) in &bursts {
                let mut p: Vec<u8> = v[*s..*e].to_vec();
                let tail_end = e + 1 + tail;
                // the emitting sample must exist
                if tail_end >= v.len() {
                    continue;
                }
                p.extend(&v[e + 1..tail_end]);
                // size check happens as samples are appended
                if e - s > max_size || p.len() > max_size {
                    continue;
                }
                out.push(p);
            }
            vec![Data::PU8(out)]
        })) },
        tagspec: None,
        spec_ulps: 0,
    }
}
fn b_vec_to_stream(rng: &mut Rng, ctx: &Ctx) -> Built {
    let cap = ctx.stream_bytes;
    let npk = rng.range(0, 30);
    let mut pk = Vec::new();
    for _ in 0..npk {
        let l = match rng.below(8) {
            0 => 0,
            1 => 1,
            2 => cap.min(4096),
            3 => cap.min(4096) - 1,
            _ => rng.range(0, 600),
        };
        pk.push(gen_bytes(rng, l));
    }
    let (inp, r) = PktIn::new(pk);
    let (b, o) = VecToStream::new(r);
    Built {
        dut: Dut {
            name: "VecToStream<u8>".into(),
            params: json!({"packets": npk}),
            block: Box::new(b),
            ins: vec![Box::new(inp)],
            outs: vec![Box::new(CopyOut::new(o))],
            keeps_history: 0,
            cleanup: None,
        },
        spec: Some(Box::new(|i| {
            let Data::PU8(p) = &i[0] else { panic!() };
            vec![Data::U8(p.iter().flatten().copied().collect())]
        })),
        tagspec: Some(Box::new(|_t, data, outlens| {
            let Data::PU8(p) = &data[0] else { panic!() };
            let mut out = Vec::new();
            let mut pos = 0u64;
            for v in p {
                if v.is_empty() {
                    continue;
                }
                let n = v.len() as u64;
                if pos + n <= outlens[0] as u64 {
                    out.push(OutTag { pos, key: "VecToStream::start".into(), val: tv_repr(&TagValue::U64(n)) });
                    out.push(OutTag { pos: pos + n - 1, key: "VecToStream::end".into(), val: tv_repr(&TagValue::U64(n)) });
                }
                pos += n;
            }
            out.sort();
            vec![out]
        })),
        spec_ulps: 0,
    }
}
fn b_to_text(rng: &mut Rng, ctx: &Ctx) -> Built {
    let nsrc = rng.range(1, 3);
    let n = gen_len(rng, ctx, 1) / 12;
    let mut ins: Vec<Box<dyn InPort>> = Vec::new();
    let mut rs = Vec::new();
    for k in 0..nsrc {
        let len = if rng.chance(2, 3) { n } else { rng.range(0, n + 5) };
        let d: Vec<u32> = (0..len).map(|i| (i * 7 + k * 1000) as u32 % 100_000).collect();
        let (p, r) = CopyIn::new(d);
        ins.push(Box::new(p));
        rs.push(r);
    }
    let (b, o) = ToText::new(rs);
    Built {
        dut: Dut {
            name: "ToText<u32>".into(),
            params: json!({"inputs": nsrc}),
            block: Box::new(b),
            ins,
            outs: vec![Box::new(CopyOut::new(o))],
            keeps_history: 0,
            cleanup: None,
        },
        spec: Some(Box::new(|i| {
            let cols: Vec<Vec<u32>> = i.iter().map(u32s).collect();
            let rows = cols.iter().map(|c| c.len()).min().unwrap_or(0);
            let mut out = String::new();
            for r in 0..rows {
                let line: Vec<String> = cols.iter().map(|c| format!("{}", c[r])).collect();
                out += &line.join(" ");
                out += "\n";
            }
            vec![Data::U8(out.into_bytes())]
        })),
        tagspec: None,
        spec_ulps: 0,
    }
}
fn b_fft_stream(rng: &mut Rng, ctx: &Ctx) -> Built {
    let cap = ctx.stream_bytes / 8;
    let size = *rng.pick(&[1usize, 2, 3, 4, 8, 16, 20, 64, 100]);
    let size = size.min(cap);
    let n = gen_len(rng, ctx, 8);
    let data = gen_c32(rng, n);
    let (inp, r) = CopyIn::new(data);
    let (b, o) = FftStream::new(r, size);
    Built {
        dut: dut1("FftStream", json!({"size": size}), b, inp, vec![Box::new(CopyOut::new(o))]),
        // size-aligned blocks, each the unnormalised forward DFT of the input block
        // (computed in f64; compared within a rounding bound by blockprops)
        spec: Some(Box::new(move |i| {
            let v = c32s(&i[0]);
            let nblocks = v.len() / size;
            let mut out = Vec::with_capacity(nblocks * size);
            for b in 0..nblocks {
                let blk = &v[b * size..(b + 1) * size];
                for k in 0..size {
                    let (mut re, mut im) = (0f64, 0f64);
                    for (n, x) in blk.iter().enumerate() {
                        let ang = -2.0 * std::f64::consts::PI * ((k * n) % size) as f64 / size as f64;
                        let (s, c) = ang.sin_cos();
                        re += x.re as f64 * c - x.im as f64 * s;
                        im += x.re as f64 * s + x.im as f64 * c;
                    }
                    out.push(C32::new(re as f32, im as f32));
                }
            }
            vec![Data::C32(out)]
        })),
        tagspec: None,
        spec_ulps: 0,
    }
}
fn b_cma(rng: &mut Rng, ctx: &Ctx) -> Built {
    let n = gen_len(rng, ctx, 8);
    let data = gen_c32(rng, n);
    let ntaps = rng.range(1, 11);
    let (inp, r) = CopyIn::new(data);
    let (b, o) = CmaEqualizer::new(ntaps, 1.0, 0.01, r);
    Built {
        dut: dut1("CmaEqualizer", json!({"ntaps": ntaps}), b, inp, vec![Box::new(CopyOut::new(o))]),
        spec: None,
        tagspec: None,
        spec_ulps: 0,
    }
}
fn b_midpointer(rng: &mut Rng, _ctx: &Ctx) -> Built {
    let npk = rng.range(0, 12);
    let pk: Vec<Vec<f32>> = (0..npk)
        .map(|_| {
            let l = rng.range(4, 200);
            let off = rng.f32_unit();
            (0..l).map(|i| off + if (i / 5) % 2 == 0 { 0.5 } else { -0.5 } + 0.01 * rng.f32_unit()).collect()
        })
        .collect();
    let (inp, r) = PktIn::new(pk);
    let (b, o) = Midpointer::new(r);
    Built {
        dut: Dut {
            name: "Midpointer".into(),
            params: json!({"packets": npk}),
            block: Box::new(b),
            ins: vec![Box::new(inp)],
            outs: vec![Box::new(PktOut::new(o))],
            keeps_history: 0,
            cleanup: None,
        },
        spec: None,
        tagspec: None,
        spec_ulps: 0,
    }
}
fn b_wpcr(rng: &mut Rng, _ctx: &Ctx) -> Built {
    let npk = rng.range(0, 8);
    let pk: Vec<Vec<f32>> = (0..npk)
        .map(|_| {
            let sps = rng.range(4, 12);
            let syms = rng.range(8, 60);
            let mut v = Vec::new();
            for _ in 0..syms {
                let l = if rng.chance(1, 2) { 1.0 } else { -1.0 };
                for _ in 0..sps {
                    v.push(l + 0.01 * rng.f32_unit());
                }
            }
            v
        })
        .collect();
    let (inp, r) = PktIn::new(pk);
    let (b, o) = Wpcr::new(r);
    Built {
        dut: Dut {
            name: "Wpcr".into(),
            params: json!({"packets": npk}),
            block: Box::new(b),
            ins: vec![Box::new(inp)],
            outs: vec![Box::new(PktOut::new(o))],
            keeps_history: 0,
            cleanup: None,
        },
        spec: None,
        tagspec: None,
        spec_ulps: 0,
    }
}
fn b_vector_source(rng: &mut Rng, ctx: &Ctx) -> Built {
    use rustradio::Repeat;
    let n = gen_len(rng, ctx, 4).min(3 * ctx.stream_bytes / 4);
    let data: Vec<u32> = (0..n as u32).map(|x| x + 1).collect();
    let rep = rng.range(0, 3) as u64;
    let (b, o) = VectorSourceBuilder::new(data.clone()).repeat(Repeat::finite(rep)).build();
    Built {
        dut: Dut {
            name: "VectorSource<u32>".into(),
            params: json!({"len": n, "repeat": rep}),
            block: Box::new(b),
            ins: vec![],
            outs: vec![Box::new(CopyOut::new(o))],
            keeps_history: 0,
            cleanup: None,
        },
        spec: Some(Box::new(move |_| {
            let mut out = Vec::new();
            for _ in 0..rep {
                out.extend(&data);
            }
            vec![Data::U32(out)]
        })),
        tagspec: Some(Box::new(move |_t, _d, outlens| {
            let mut out = Vec::new();
            if n > 0 {
                for k in 0..rep {
                    let pos = k * n as u64;
                    if pos < outlens[0] as u64 {
                        out.push(OutTag { pos, key: "VectorSource::start".into(), val: tv_repr(&TagValue::Bool(true)) });
                        out.push(OutTag { pos, key: "VectorSource::repeat".into(), val: tv_repr(&TagValue::U64(k)) });
                        if k == 0 {
                            out.push(OutTag { pos, key: "VectorSource::first".into(), val: tv_repr(&TagValue::Bool(true)) });
                        }
                    }
                }
            }
            out.sort();
            vec![out]
        })),
        spec_ulps: 0,
    }
}

fn b_null_sink(rng: &mut Rng, ctx: &Ctx) -> Built {
    let n = gen_len(rng, ctx, 4);
    let data = gen_f32(rng, n);
    let (inp, r) = tagged_in(rng, ctx, data);
    let b = NullSink::new(r);
    Built { dut: dut1("NullSink<f32>", json!({}), b, inp, vec![]), spec: None, tagspec: None, spec_ulps: 0 }
}
/// Pseudo output port: what a VectorSink stored, read through its hook.
struct HookOut {
    hook: rustradio::vector_sink::Hook<f32>,
}
impl OutPort for HookOut {
    fn drain(&mut self, _j: usize) -> usize {
        0
    }
    fn available(&self) -> usize {
        0
    }
    fn free(&self) -> usize {
        usize::MAX / 2
    }
    fn capacity(&self) -> usize {
        usize::MAX / 2
    }
    fn id(&self) -> usize {
        usize::MAX
    }
    fn handles(&self) -> usize {
        0
    }
    fn is_packet(&self) -> bool {
        false
    }
    fn collected(&self) -> Data {
        Data::F32(self.hook.data().samples().to_vec())
    }
    fn collected_len(&self) -> usize {
        self.hook.data().samples().len()
    }
    fn tags(&self) -> &[OutTag] {
        &[]
    }
    fn drop_reader(&mut self) {}
    fn reader_dropped(&self) -> bool {
        true
    }
}
fn b_vector_sink(rng: &mut Rng, ctx: &Ctx) -> Built {
    let n = gen_len(rng, ctx, 4);
    let data = gen_f32(rng, n);
    let max = *rng.pick(&[0usize, 1, 100, 5000, 1_000_000]);
    let (inp, r) = tagged_in(rng, ctx, data);
    let b = VectorSink::new(r, max);
    let hook = b.hook();
    Built {
        dut: dut1("VectorSink<f32>", json!({"max_size": max}), b, inp, vec![Box::new(HookOut { hook })]),
        // stores the first max_size samples, discards the rest
        spec: Some(Box::new(move |i| {
            let v = f32s(&i[0]);
            vec![Data::F32(v.into_iter().take(max).collect())]
        })),
        tagspec: None,
        spec_ulps: 0,
    }
}
fn b_constant_source(rng: &mut Rng, _ctx: &Ctx) -> Built {
    let v = rng.next() as u32;
    let (b, o) = ConstantSource::new(v);
    Built {
        dut: Dut { name: "ConstantSource<u32>".into(), params: json!({"val": v}), block: Box::new(b), ins: vec![], outs: vec![Box::new(CopyOut::new(o))], keeps_history: 0, cleanup: None },
        // "the same value, forever": the length is whatever was drained; checked by blockprops::spec_any_len
        spec: Some(Box::new(move |_| vec![Data::U32(vec![v])])),
        tagspec: None,
        spec_ulps: 0,
    }
}
fn b_signal_source(rng: &mut Rng, _ctx: &Ctx) -> Built {
    let f = 100.0 + rng.f32_unit().abs() * 4000.0;
    let dut = if rng.chance(1, 2) {
        let (b, o) = SignalSourceFloat::new(44100.0, f, 0.5);
        Dut { name: "SignalSourceFloat".into(), params: json!({"freq": f}), block: Box::new(b), ins: vec![], outs: vec![Box::new(CopyOut::new(o))], keeps_history: 0, cleanup: None }
    } else {
        let (b, o) = SignalSourceComplex::new(44100.0, f, 0.5);
        Dut { name: "SignalSourceComplex".into(), params: json!({"freq": f}), block: Box::new(b), ins: vec![], outs: vec![Box::new(CopyOut::new(o))], keeps_history: 0, cleanup: None }
    };
    Built { dut, spec: None, tagspec: None, spec_ulps: 0 }
}

pub const ENTRIES: &[Entry] = &[
    Entry { name: "AddConst<f32>", build: b_add_const_f32, min_stream: 4096 },
    Entry { name: "add_const<Complex>", build: b_add_const_fn, min_stream: 4096 },
    Entry { name: "MultiplyConst<f32>", build: b_multiply_const, min_stream: 4096 },
    Entry { name: "XorConst<u8>", build: b_xor_const, min_stream: 4096 },
    Entry { name: "BinarySlicer", build: b_binary_slicer, min_stream: 4096 },
    Entry { name: "ComplexToMag2", build: b_complex_to_mag2, min_stream: 4096 },
    Entry { name: "NrziDecode", build: b_nrzi, min_stream: 4096 },
    Entry { name: "Descrambler", build: b_descrambler, min_stream: 4096 },
    Entry { name: "CorrelateAccessCode", build: b_cac, min_stream: 4096 },
    Entry { name: "CorrelateAccessCodeTag", build: b_cac_tag, min_stream: 4096 },
    Entry { name: "QuadratureDemod", build: b_quad_demod, min_stream: 4096 },
    Entry { name: "FastFM", build: b_fastfm, min_stream: 4096 },
    Entry { name: "SinglePoleIirFilter<f32>", build: b_iir_f32, min_stream: 4096 },
    Entry { name: "Map<u32,u8>", build: b_map, min_stream: 4096 },
    Entry { name: "Tee<u8>", build: b_tee, min_stream: 4096 },
    Entry { name: "Add<f32>", build: b_add, min_stream: 4096 },
    Entry { name: "Xor<u8>", build: b_xor, min_stream: 4096 },
    Entry { name: "FloatToComplex", build: b_float_to_complex, min_stream: 4096 },
    Entry { name: "BurstTagger<u32>", build: b_burst_tagger, min_stream: 4096 },
    Entry { name: "Skip<u32>", build: b_skip, min_stream: 4096 },
    Entry { name: "Delay<u32>", build: b_delay, min_stream: 4096 },
    Entry { name: "RationalResampler<u32>", build: b_resampler, min_stream: 4096 },
    Entry { name: "RtlSdrDecode", build: b_rtlsdr_decode, min_stream: 4096 },
    Entry { name: "FirFilter<f32>", build: b_fir_f32, min_stream: 4096 },
    Entry { name: "FirFilter<Complex>", build: b_fir_c32, min_stream: 4096 },
    Entry { name: "FftFilter", build: b_fft_filter, min_stream: 4096 },
    Entry { name: "FftFilterFloat", build: b_fft_filter_float, min_stream: 4096 },
    Entry { name: "Hilbert", build: b_hilbert, min_stream: 4096 },
    Entry { name: "AuEncode", build: b_au_encode, min_stream: 4096 },
    Entry { name: "AuDecode", build: b_au_decode, min_stream: 4096 },
    Entry { name: "SymbolSync", build: b_symbol_sync, min_stream: 4096 },
    Entry { name: "ZeroCrossing", build: b_zero_crossing, min_stream: 4096 },
    Entry { name: "HdlcDeframer", build: b_hdlc, min_stream: 4096 },
    Entry { name: "Il2pDeframer", build: b_il2p, min_stream: 4096 },
    Entry { name: "StreamToPdu<u8>", build: b_stream_to_pdu, min_stream: 4096 },
    Entry { name: "VecToStream<u8>", build: b_vec_to_stream, min_stream: 4096 },
    Entry { name: "ToText<u32>", build: b_to_text, min_stream: 4096 },
    Entry { name: "FftStream", build: b_fft_stream, min_stream: 4096 },
    Entry { name: "CmaEqualizer", build: b_cma, min_stream: 4096 },
    Entry { name: "Midpointer", build: b_midpointer, min_stream: 4096 },
    Entry { name: "Wpcr", build: b_wpcr, min_stream: 4096 },
    Entry { name: "VectorSource<u32>", build: b_vector_source, min_stream: 4096 },
    Entry { name: "NullSink<f32>", build: b_null_sink, min_stream: 4096 },
    Entry { name: "VectorSink<f32>", build: b_vector_sink, min_stream: 4096 },
    Entry { name: "ConstantSource<u32>", build: b_constant_source, min_stream: 4096 },
    Entry { name: "SignalSource", build: b_signal_source, min_stream: 4096 },
];

pub fn entry(name: &str) -> Option<&'static Entry> {
    ENTRIES.iter().find(|e| e.name == name)
}
