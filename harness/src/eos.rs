//! C04: end-of-stream decisions never lose committed data and always arrive.
//!
//! Schedule scripts: a reader (or writer) thread is parked at a yield hook
//! inside the library's check-then-act window; the script thread then lets the
//! peer commit its last data and go away, and releases the parked thread. The
//! hand-shake is confirmed from the script (parked flag), a script that did
//! not complete is inconclusive.
use crate::graphs::*;
use crate::rec;
use crate::util::*;
use rustradio::block::{Block, BlockEOF, BlockName, BlockRet};
use rustradio::blocks::*;
use rustradio::graph::GraphRunner;
use rustradio::mtgraph::MTGraph;
use rustradio::stream::{NCReadStream, ReadStream, StreamWait, WriteStream, new_nocopy_stream, new_stream};
use rustradio::verif::{Ev, Site};
use serde_json::{Value, json};
use std::sync::atomic::{AtomicBool, AtomicUsize, Ordering};
use std::sync::{Arc, Condvar, Mutex};
use std::time::{Duration, Instant};

pub struct Gate {
    m: Mutex<(bool, bool)>, // parked, released
    cv: Condvar,
}
impl Gate {
    pub fn new() -> Arc<Gate> {
        Arc::new(Gate {
            m: Mutex::new((false, false)),
            cv: Condvar::new(),
        })
    }
    pub fn wait_parked(&self, t: Duration) -> bool {
        let g = self.m.lock().unwrap();
        let (g, _) = self.cv.wait_timeout_while(g, t, |s| !s.0).unwrap();
        g.0
    }
    pub fn release(&self) {
        self.m.lock().unwrap().1 = true;
        self.cv.notify_all();
    }
    fn park(&self) -> bool {
        let mut g = self.m.lock().unwrap();
        g.0 = true;
        self.cv.notify_all();
        let (g, to) = self.cv.wait_timeout_while(g, Duration::from_secs(10), |s| !s.1).unwrap();
        drop(g);
        !to.timed_out()
    }
}

struct Rule {
    role: u64,
    site: Site,
    skip: AtomicUsize,
    armed: AtomicBool,
    gate: Arc<Gate>,
}
static RULES: Mutex<Vec<Arc<Rule>>> = Mutex::new(Vec::new());
static PARK_FAILED: AtomicBool = AtomicBool::new(false);

fn handler(ev: &Ev) {
    let Ev::Yield { site, .. } = ev else { return };
    let role = rec::role();
    let rules: Vec<Arc<Rule>> = RULES.lock().unwrap().clone();
    for r in rules {
        if r.role == role && r.site == *site && r.armed.load(Ordering::SeqCst) {
            if r.skip.load(Ordering::SeqCst) > 0 {
                r.skip.fetch_sub(1, Ordering::SeqCst);
                continue;
            }
            r.armed.store(false, Ordering::SeqCst);
            if !r.gate.park() {
                PARK_FAILED.store(true, Ordering::SeqCst);
            }
        }
    }
}

fn arm(thread_name: &str, site: Site, skip: usize) -> Arc<Gate> {
    let gate = Gate::new();
    RULES.lock().unwrap().push(Arc::new(Rule {
        role: fnv_str(thread_name),
        site,
        skip: AtomicUsize::new(skip),
        armed: AtomicBool::new(true),
        gate: gate.clone(),
    }));
    gate
}
fn disarm_all() {
    let rules: Vec<Arc<Rule>> = std::mem::take(&mut *RULES.lock().unwrap());
    for r in rules {
        r.armed.store(false, Ordering::SeqCst);
        r.gate.release();
    }
}

#[derive(Clone, Debug)]
pub struct Scn {
    pub kind: String,
    pub cut: String,
    pub b: usize,    // initially buffered
    pub need: usize, // request
    pub k: usize,    // peer's final commit / consume
    /// Ring position at which the scenario starts (samples produced and
    /// consumed beforehand), so that the buffered data can straddle the wrap.
    pub offset: usize,
}
impl Scn {
    fn to_json(&self) -> Value {
        json!({"kind": self.kind, "cut": self.cut, "buffered": self.b, "need": self.need, "final": self.k, "ring_offset": self.offset})
    }
    fn from_json(v: &Value) -> Option<Scn> {
        Some(Scn {
            kind: v["kind"].as_str()?.into(),
            cut: v["cut"].as_str()?.into(),
            b: v["buffered"].as_u64()? as usize,
            need: v["need"].as_u64()? as usize,
            k: v["final"].as_u64()? as usize,
            offset: v["ring_offset"].as_u64().unwrap_or(0) as usize,
        })
    }
}

#[derive(Debug, Default)]
pub struct Verdicts {
    pub findings: Vec<(String, String)>,
    pub confirmed: bool,
    pub inconclusive: Option<String>,
}

fn commit(w: &WriteStream<u32>, from: u32, n: usize) {
    if n == 0 {
        return;
    }
    let mut wb = w.write_buf().unwrap();
    for i in 0..n {
        wb.slice()[i] = from + i as u32;
    }
    wb.produce(n, &[]);
}
/// Move the ring position forward by `n` samples (produce and consume them).
fn advance(w: &WriteStream<u32>, r: &ReadStream<u32>, n: usize) {
    let mut left = n;
    while left > 0 {
        let mut wb = w.write_buf().unwrap();
        let k = std::cmp::min(left, wb.len());
        for i in 0..k {
            wb.slice()[i] = 0xFFFF_0000;
        }
        wb.produce(k, &[]);
        let (rb, _) = r.read_buf().unwrap();
        let l = rb.len();
        rb.consume(l);
        left -= k;
    }
}
fn drain(r: &ReadStream<u32>) -> Vec<u32> {
    let (rb, _) = r.read_buf().unwrap();
    let v = rb.slice().to_vec();
    let n = v.len();
    rb.consume(n);
    v
}

/// Reader-side scenarios on a copy stream: wait(need) / eof() / closed().
fn scn_read_stream(s: &Scn) -> Verdicts {
    let mut out = Verdicts::default();
    rec::stream_size(4096);
    let (w, r) = new_stream::<u32>();
    rec::stream_size(0);
    advance(&w, &r, s.offset);
    commit(&w, 0, s.b);
    let total = s.b + s.k;
    let use_eof = s.kind == "ReadStream::eof";
    let gate = match (s.cut.as_str(), use_eof) {
        ("at-liveness-read", false) => Some(arm("c04-actor", Site::StrongCount, 0)),
        ("commit-only-at-liveness-read", false) => Some(arm("c04-actor", Site::StrongCount, 0)),
        // A liveness read that comes *after* the timed wait would have to be
        // matched with a fresh look at the count; the pinned code has none.
        ("at-a-second-liveness-read", false) => Some(arm("c04-actor", Site::StrongCount, 1)),
        ("during-wait", false) => Some(arm("c04-actor", Site::WaitForRead, 0)),
        ("after-liveness-read", true) => Some(arm("c04-actor", Site::ReadBuf, 0)),
        ("before-liveness-read", true) => Some(arm("c04-actor", Site::StrongCount, 0)),
        _ => None,
    };
    let mut w = Some(w);
    if s.cut == "before-call" {
        commit(w.as_ref().unwrap(), s.b as u32, s.k);
        w = None;
    }
    let need = s.need;
    let r = Arc::new(r);
    let r2 = r.clone();
    let actor = spawn_supervised("c04-actor", move || if use_eof { r2.eof() } else { r2.wait(need) });
    let mut writer_dropped_before_return = s.cut == "before-call";
    if let (Some(g), "at-a-second-liveness-read") = (&gate, s.cut.as_str()) {
        // poll: parked, or the call returned without a second liveness read
        let t0 = Instant::now();
        while !g.wait_parked(Duration::from_millis(20)) && !actor.is_finished() && t0.elapsed() < Duration::from_secs(3) {}
        if !g.wait_parked(Duration::from_millis(1)) {
            disarm_all();
            let _ = actor.join_or_blocked(Duration::from_secs(5));
            out.confirmed = true; // the call has a single liveness read: nothing to race here
            out.inconclusive = None;
            return out;
        }
    }
    if let Some(g) = &gate {
        if !g.wait_parked(Duration::from_secs(3)) {
            // The actor never reached the site (e.g. wait satisfied without a
            // liveness read): legal, nothing to race.
            out.inconclusive = Some("script: actor did not reach the park site".into());
            disarm_all();
            let _ = actor.join_or_blocked(Duration::from_secs(5));
            // not reaching the liveness read is normal when b >= need; eof()
            // answers before touching the buffer while the writer is alive
            if (s.b >= s.need && !use_eof) || (use_eof && s.cut == "after-liveness-read") {
                out.inconclusive = None;
            }
            return out;
        }
        out.confirmed = true;
        match s.cut.as_str() {
            "during-wait" => {
                // let the actor enter the condvar wait, then act (notify path)
                g.release();
                std::thread::sleep(Duration::from_millis(15));
                commit(w.as_ref().unwrap(), s.b as u32, s.k);
                w = None;
                writer_dropped_before_return = true;
            }
            "commit-only-at-liveness-read" => {
                commit(w.as_ref().unwrap(), s.b as u32, s.k);
                g.release();
            }
            _ => {
                commit(w.as_ref().unwrap(), s.b as u32, s.k);
                w = None;
                writer_dropped_before_return = true;
                g.release();
            }
        }
    } else {
        out.confirmed = true;
    }
    let verdict = match actor.join_or_blocked(Duration::from_secs(5)) {
        Ok(v) => v.unwrap(),
        Err(why) => {
            disarm_all();
            out.findings.push(("reader-blocked-forever".into(), format!("ReadStream::{} never returned after the writer had committed and left: {why}", if use_eof { "eof()".to_string() } else { format!("wait({need})") })));
            return out;
        }
    };
    disarm_all();
    // Safety.
    let readable = r.read_buf().unwrap().0.len();
    if use_eof {
        if verdict && (!writer_dropped_before_return || readable > 0) {
            out.findings.push((
                "eof-true-with-data-or-live-writer".into(),
                format!("eof() returned true with writer_dropped={writer_dropped_before_return} and {readable} samples readable"),
            ));
        }
    } else if verdict && (!writer_dropped_before_return || readable >= s.need) {
        out.findings.push((
            "never-verdict-with-data-available".into(),
            format!("wait({}) returned true ('can never be satisfied') with writer_dropped={writer_dropped_before_return} and {readable} samples readable", s.need),
        ));
    }
    // Writer finishes (cuts that kept it alive), then bounded arrival.
    if s.cut == "after-call" || s.cut == "commit-only-at-liveness-read" {
        if s.cut == "after-call" {
            commit(w.as_ref().unwrap(), s.b as u32, s.k);
        }
    }
    drop(w);
    let readable = r.read_buf().unwrap().0.len();
    if readable != total {
        out.findings.push(("committed-data-not-readable".into(), format!("{total} samples committed before the writer went away, {readable} readable")));
    }
    if !use_eof && readable < s.need {
        let mut calls = 0;
        let mut told = false;
        for _ in 0..4 {
            calls += 1;
            if r.wait(s.need) {
                told = true;
                break;
            }
        }
        if !told || calls > 2 {
            out.findings.push(("end-of-stream-not-reported".into(), format!("writer gone, {readable} < need {}: {calls} wait() calls, told={told}", s.need)));
        }
    }
    let got = drain(&r);
    if got != (0..total as u32).collect::<Vec<_>>() {
        out.findings.push(("drain-differs".into(), format!("drained {} samples, expected 0..{total}", got.len())));
    }
    if use_eof || readable >= s.need {
        // after draining, eof() must be true (writer gone, nothing left)
        if !r.eof() {
            out.findings.push(("eof-false-after-drain".into(), "writer gone and stream drained but eof() is false".into()));
        }
    }
    out
}

/// Writer waiting for space while the reader consumes and leaves.
fn scn_write_stream(s: &Scn) -> Verdicts {
    let mut out = Verdicts::default();
    rec::stream_size(4096);
    let (w, r) = new_stream::<u32>();
    rec::stream_size(0);
    let cap = r.total_size();
    advance(&w, &r, s.offset);
    let fill = cap - std::cmp::min(s.b, cap); // free space = s.b initially
    commit(&w, 0, fill);
    let gate = match s.cut.as_str() {
        "at-liveness-read" => Some(arm("c04-actor", Site::StrongCount, 0)),
        "during-wait" => Some(arm("c04-actor", Site::WaitForWrite, 0)),
        _ => None,
    };
    let mut r = Some(r);
    let consume_and_leave = |r: &mut Option<ReadStream<u32>>, k: usize| {
        if let Some(rs) = r.as_ref() {
            let (rb, _) = rs.read_buf().unwrap();
            let k = std::cmp::min(k, rb.len());
            rb.consume(k);
        }
        *r = None;
    };
    if s.cut == "before-call" {
        consume_and_leave(&mut r, s.k);
    }
    let need = s.need;
    let w = Arc::new(w);
    let w2 = w.clone();
    let actor = spawn_supervised("c04-actor", move || w2.wait(need));
    let mut gone = s.cut == "before-call";
    if let Some(g) = &gate {
        if !g.wait_parked(Duration::from_secs(3)) {
            disarm_all();
            let _ = actor.join_or_blocked(Duration::from_secs(5));
            if s.b < s.need {
                out.inconclusive = Some("script: actor did not reach the park site".into());
            }
            return out;
        }
        out.confirmed = true;
        if s.cut == "during-wait" {
            g.release();
            std::thread::sleep(Duration::from_millis(15));
        }
        consume_and_leave(&mut r, s.k);
        gone = true;
        g.release();
    } else {
        out.confirmed = true;
    }
    let verdict = match actor.join_or_blocked(Duration::from_secs(5)) {
        Ok(v) => v.unwrap(),
        Err(why) => {
            disarm_all();
            out.findings.push(("writer-blocked-forever".into(), format!("WriteStream::wait({need}) never returned after the reader had consumed and left: {why}")));
            return out;
        }
    };
    disarm_all();
    if verdict && !gone {
        out.findings.push(("never-verdict-with-live-reader".into(), format!("WriteStream::wait({need}) returned true while the reader was alive")));
    }
    drop(r);
    // bounded arrival: reader gone, free < need => told within 2 waits
    if w.free() < need {
        let mut calls = 0;
        let mut told = false;
        for _ in 0..4 {
            calls += 1;
            let w3 = w.clone();
            match spawn_supervised("c04-waiter", move || w3.wait(need)).join_or_blocked(Duration::from_secs(5)) {
                Ok(v) => {
                    if v.unwrap() {
                        told = true;
                        break;
                    }
                }
                Err(why) => {
                    out.findings.push(("writer-blocked-forever".into(), format!("reader gone, free {} < need {need}: WriteStream::wait never returned: {why}", w.free())));
                    return out;
                }
            }
        }
        if !told || calls > 2 {
            out.findings.push(("writer-not-released".into(), format!("reader gone, free {} < need {need}: {calls} wait() calls, told={told}", w.free())));
        }
    }
    if !w.closed() {
        out.findings.push(("closed-false".into(), "reader gone but WriteStream::closed() is false".into()));
    }
    out
}

/// Packet stream scenarios.
fn scn_nc(s: &Scn) -> Verdicts {
    let mut out = Verdicts::default();
    let (w, r) = new_nocopy_stream::<Vec<u8>>();
    for i in 0..s.b {
        w.push(vec![i as u8], &[]);
    }
    let total = s.b + s.k;
    let use_eof = s.kind == "NCReadStream::eof";
    let gate = match (s.cut.as_str(), use_eof) {
        ("between-emptiness-and-liveness-read", true) => Some(arm("c04-actor", Site::StrongCount, 0)),
        ("at-entry", _) => Some(arm("c04-actor", if use_eof { Site::NcEof } else { Site::NcWait }, 0)),
        ("during-wait", false) => Some(arm("c04-actor", Site::NcWait, 0)),
        _ => None,
    };
    let mut w = Some(w);
    let finish = |w: &mut Option<rustradio::stream::NCWriteStream<Vec<u8>>>| {
        if let Some(ws) = w.as_ref() {
            for i in 0..s.k {
                ws.push(vec![(s.b + i) as u8], &[]);
            }
        }
        *w = None;
    };
    if s.cut == "before-call" {
        finish(&mut w);
    }
    let need = s.need;
    let r = Arc::new(r);
    let r2 = r.clone();
    let actor = std::thread::Builder::new()
        .name("c04-actor".into())
        .spawn(move || if use_eof { r2.eof() } else { r2.wait(need) })
        .unwrap();
    let mut gone = s.cut == "before-call";
    if let Some(g) = &gate {
        if !g.wait_parked(Duration::from_secs(3)) {
            disarm_all();
            let _ = actor.join();
            // eof() with a non-empty queue answers before the liveness read: legal
            if !(use_eof && s.b > 0) {
                out.inconclusive = Some("script: actor did not reach the park site".into());
            }
            return out;
        }
        out.confirmed = true;
        if s.cut == "during-wait" {
            g.release();
            std::thread::sleep(Duration::from_millis(15));
        }
        finish(&mut w);
        gone = true;
        g.release();
    } else {
        out.confirmed = true;
    }
    let verdict = actor.join().unwrap();
    disarm_all();
    // what is in the queue right now?
    let mut got: Vec<Vec<u8>> = Vec::new();
    let queued_now = {
        // count without consuming: pop all, remember
        while let Some((p, _)) = r.pop() {
            got.push(p);
        }
        got.len()
    };
    if use_eof {
        if verdict && (!gone || queued_now > 0) {
            out.findings.push(("eof-true-with-data-or-live-writer".into(), format!("NCReadStream::eof() returned true with writer_dropped={gone} and {queued_now} packets queued")));
        }
    } else if verdict && (!gone || queued_now >= s.need) {
        out.findings.push(("never-verdict-with-data-available".into(), format!("NCReadStream::wait({need}) returned true with writer_dropped={gone} and {queued_now} packets queued")));
    }
    finish(&mut w);
    while let Some((p, _)) = r.pop() {
        got.push(p);
    }
    if got.len() != total || got.iter().enumerate().any(|(i, p)| p != &vec![i as u8]) {
        out.findings.push(("packets-lost-or-reordered".into(), format!("{} packets popped, {total} pushed", got.len())));
    }
    // bounded arrival on the drained, closed queue
    let mut calls = 0;
    let mut told = false;
    for _ in 0..4 {
        calls += 1;
        if r.wait(1) {
            told = true;
            break;
        }
    }
    if !told || calls > 2 {
        out.findings.push(("end-of-stream-not-reported".into(), format!("writer gone, queue empty: {calls} wait(1) calls, told={told}")));
    }
    if !r.eof() || !r.closed() {
        out.findings.push(("eof-false-after-drain".into(), "writer gone and queue drained but eof()/closed() is false".into()));
    }
    out
}

/// Derive-generated eof() of a block with a packet input (uses NCReadStream::eof).
fn scn_block_eof(s: &Scn) -> Verdicts {
    let mut out = Verdicts::default();
    let (w, r) = new_nocopy_stream::<Vec<u8>>();
    let (mut blk, o) = VecToStream::new(r);
    for i in 0..s.b {
        w.push(vec![i as u8], &[]);
    }
    let gate = arm("c04-actor", Site::StrongCount, 0);
    let k = s.k;
    let b = s.b;
    let actor = std::thread::Builder::new()
        .name("c04-actor".into())
        .spawn(move || {
            let e = blk.eof();
            (e, blk)
        })
        .unwrap();
    if !gate.wait_parked(Duration::from_secs(3)) {
        disarm_all();
        let _ = actor.join();
        if b == 0 {
            out.inconclusive = Some("script: actor did not reach the park site".into());
        }
        return out;
    }
    out.confirmed = true;
    for i in 0..k {
        w.push(vec![(b + i) as u8], &[]);
    }
    drop(w);
    gate.release();
    let (verdict, mut blk) = actor.join().unwrap();
    disarm_all();
    // run the block to completion and count what comes out
    let mut total = 0;
    for _ in 0..(b + k + 4) {
        let _ = blk.work();
        let (rb, _) = o.read_buf().unwrap();
        let n = rb.len();
        total += n;
        rb.consume(n);
    }
    if verdict && total > 0 {
        out.findings.push(("block-eof-true-with-input-queued".into(), format!("VecToStream::eof() returned true while {total} packet(s) were still queued on its input")));
    }
    if total != b + k {
        out.findings.push(("packets-lost".into(), format!("{} samples came out, {} packets went in", total, b + k)));
    }
    out
}

/// A source that emits `first` samples, then idles until the gate opens, then
/// emits `last` samples and EOF.
struct GatedSource {
    dst: WriteStream<u32>,
    first: usize,
    last: usize,
    sent: usize,
    open: Arc<AtomicBool>,
}
impl BlockName for GatedSource {
    fn block_name(&self) -> &str {
        "GatedSource"
    }
}
impl BlockEOF for GatedSource {}
impl Block for GatedSource {
    fn work(&mut self) -> rustradio::Result<BlockRet> {
        let total = self.first + self.last;
        if self.sent == total {
            return Ok(BlockRet::EOF);
        }
        let limit = if self.open.load(Ordering::SeqCst) { total } else { self.first };
        if self.sent >= limit {
            return Ok(BlockRet::Pending);
        }
        let mut o = self.dst.write_buf()?;
        if o.is_empty() {
            return Ok(BlockRet::WaitForStream(&self.dst, 1));
        }
        let n = std::cmp::min(o.len(), limit - self.sent);
        for i in 0..n {
            o.slice()[i] = (self.sent + i) as u32;
        }
        o.produce(n, &[]);
        self.sent += n;
        if self.sent == total {
            return Ok(BlockRet::EOF);
        }
        Ok(BlockRet::Again)
    }
}

/// Three-thread MTGraph: the middle block's thread is parked at its liveness
/// read after a timed-out wait; the source then sends its last data and exits.
fn scn_mtgraph(s: &Scn) -> Verdicts {
    let mut out = Verdicts::default();
    rec::stream_size(4096);
    let (dst, r) = new_stream::<u32>();
    let open = Arc::new(AtomicBool::new(false));
    let src = GatedSource { dst, first: s.b, last: s.k, sent: 0, open: open.clone() };
    let (mid, r2) = AddConst::new(r, 0u32);
    let got = Arc::new(Mutex::new(Vec::new()));
    let sink = CollectU32 { src: r2, got: got.clone() };
    rec::stream_size(0);
    let (src, st_src) = Probe::wrap(Box::new(src));
    let (mid, _st_mid) = Probe::wrap(Box::new(mid));
    let (sink, _st_sink) = Probe::wrap(Box::new(sink));
    let mut g = MTGraph::new();
    g.add(src);
    g.add(mid);
    g.add(sink);
    // The middle block's thread is named after the block.
    let gate = arm("AddConst", Site::StrongCount, s.need);
    let runner = std::thread::spawn(move || catch(|| g.run().map_err(|e| format!("{e}"))));
    if !gate.wait_parked(Duration::from_secs(5)) {
        open.store(true, Ordering::SeqCst);
        disarm_all();
        let _ = runner.join();
        out.inconclusive = Some("script: middle block never reached a liveness read".into());
        return out;
    }
    out.confirmed = true;
    open.store(true, Ordering::SeqCst);
    // wait for the source thread to exit (its probe is dropped)
    let t0 = Instant::now();
    while !st_src.dropped.load(Ordering::SeqCst) && t0.elapsed() < Duration::from_secs(5) {
        std::thread::sleep(Duration::from_millis(1));
    }
    if !st_src.dropped.load(Ordering::SeqCst) {
        out.inconclusive = Some("script: source did not exit".into());
    }
    gate.release();
    // MTGraph::run() joins its block threads; if those are all parked for good
    // (no wake-up at all for 5 s) it will never return.
    let names: Vec<String> = ["GatedSource", "AddConst", "CollectU32"].iter().map(|s| s.to_string()).collect();
    let mut mark: Option<(Instant, Vec<(i32, u64)>)> = None;
    while !runner.is_finished() {
        std::thread::sleep(Duration::from_millis(40));
        let now: Vec<(i32, u64)> = tasks_named(&names).into_iter().filter_map(|t| task_stat(t).and_then(|(st, v)| if st == 'S' { Some((t, v)) } else { None })).collect();
        let all_asleep = !now.is_empty() && now.len() == tasks_named(&names).len();
        match (&mark, all_asleep) {
            (Some((t0, v0)), true) if *v0 == now => {
                if t0.elapsed() >= Duration::from_secs(5) {
                    disarm_all();
                    out.findings.push(("mtgraph-blocked-forever".into(), format!("MTGraph::run() did not return: its remaining block threads {now:?} (tid, voluntary context switches) slept without a single wake-up for 5 s")));
                    return out;
                }
            }
            (_, true) => mark = Some((Instant::now(), now)),
            _ => mark = None,
        }
    }
    let res = runner.join().unwrap();
    disarm_all();
    match res {
        Ok(Ok(())) => {}
        other => out.findings.push(("mtgraph-run-failed".into(), format!("{other:?}"))),
    }
    let v = got.lock().unwrap();
    let total = s.b + s.k;
    if v.len() != total || v.iter().enumerate().any(|(i, x)| *x != i as u32) {
        out.findings.push((
            "mtgraph-dropped-tail-data".into(),
            format!("source committed {total} samples before exiting, sink received {} (first part {}, last part {})", v.len(), s.b, s.k),
        ));
    }
    out
}

struct CollectU32 {
    src: ReadStream<u32>,
    got: Arc<Mutex<Vec<u32>>>,
}
impl BlockName for CollectU32 {
    fn block_name(&self) -> &str {
        "CollectU32"
    }
}
impl BlockEOF for CollectU32 {
    fn eof(&mut self) -> bool {
        self.src.eof()
    }
}
impl Block for CollectU32 {
    fn work(&mut self) -> rustradio::Result<BlockRet> {
        let (i, _t) = self.src.read_buf()?;
        let n = i.len();
        self.got.lock().unwrap().extend_from_slice(i.slice());
        i.consume(n);
        Ok(BlockRet::WaitForStream(&self.src, 1))
    }
}

pub fn run_scn(s: &Scn) -> Verdicts {
    PARK_FAILED.store(false, Ordering::SeqCst);
    rec::install(false);
    rec::set_yield_handler(Some(Arc::new(handler)));
    let v = match s.kind.as_str() {
        "ReadStream::wait" | "ReadStream::eof" => scn_read_stream(s),
        "WriteStream::wait" => scn_write_stream(s),
        "NCReadStream::wait" | "NCReadStream::eof" => scn_nc(s),
        "block-eof(packet input)" => scn_block_eof(s),
        "MTGraph" => scn_mtgraph(s),
        _ => Verdicts::default(),
    };
    disarm_all();
    rec::set_yield_handler(None);
    let mut v = v;
    if PARK_FAILED.load(Ordering::SeqCst) {
        v.inconclusive = Some("script: a parked thread was not released within 10 s".into());
    }
    v
}

pub fn grid() -> Vec<Scn> {
    let mut g = Vec::new();
    let params: &[(usize, usize, usize)] = &[
        (0, 1, 0), (0, 1, 1), (0, 1, 10), (5, 10, 0), (5, 10, 4), (5, 10, 5), (5, 10, 10), (5, 15, 10),
        (0, 10, 10), (0, 10, 9), (9, 10, 1), (1, 1, 0), (3, 2, 0), (0, 1000, 1000), (0, 1000, 999), (500, 1024, 524),
        // requests the ring can never hold: full ring, writer leaves
        (1000, 1025, 24), (1024, 1025, 0), (0, 3000, 1024),
    ];
    let cap = 1024usize; // u32 samples in the one-page stream the scenarios use
    for &(b, need, k) in params {
        // ring offsets: fresh ring; data ends exactly at the wrap; buffered data
        // straddles the wrap; final commit straddles the wrap
        let mut offsets = vec![0usize];
        if b + k > 1 && b + k < cap {
            offsets.push(cap - (b + k) / 2 - 1);
            offsets.push(cap - 1);
            if b > 1 {
                offsets.push(cap - b / 2);
            }
        }
        offsets.dedup();
        for offset in offsets {
            for cut in ["before-call", "during-wait", "at-liveness-read", "commit-only-at-liveness-read", "after-call"] {
                g.push(Scn { kind: "ReadStream::wait".into(), cut: cut.into(), b, need, k, offset });
            }
            if offset == 0 && b < need {
                g.push(Scn { kind: "ReadStream::wait".into(), cut: "at-a-second-liveness-read".into(), b, need, k, offset });
            }
            if offset == 0 || offset == cap - 1 {
                for cut in ["before-call", "before-liveness-read", "after-liveness-read", "after-call"] {
                    g.push(Scn { kind: "ReadStream::eof".into(), cut: cut.into(), b, need, k, offset });
                }
            }
        }
    }
    for &(free, need, k) in &[(0usize, 1usize, 0usize), (0, 1, 1), (0, 10, 5), (0, 10, 10), (5, 10, 5), (5, 10, 4), (10, 10, 0), (0, 1024, 1024), (0, 1024, 1000)] {
        for offset in [0usize, cap - 1, cap - need / 2 - 1] {
            for cut in ["before-call", "during-wait", "at-liveness-read", "after-call"] {
                g.push(Scn { kind: "WriteStream::wait".into(), cut: cut.into(), b: free, need, k, offset });
            }
        }
    }
    for &(b, need, k) in &[(0usize, 1usize, 0usize), (0, 1, 1), (0, 1, 3), (1, 1, 0), (1, 2, 1), (1, 3, 1), (2, 5, 3), (0, 5, 4)] {
        for cut in ["before-call", "at-entry", "during-wait", "after-call"] {
            g.push(Scn { kind: "NCReadStream::wait".into(), cut: cut.into(), b, need, k, offset: 0 });
        }
        for cut in ["before-call", "at-entry", "between-emptiness-and-liveness-read", "after-call"] {
            g.push(Scn { kind: "NCReadStream::eof".into(), cut: cut.into(), b, need, k, offset: 0 });
        }
    }
    for &(b, k) in &[(0usize, 1usize), (0, 3), (0, 0), (1, 1)] {
        g.push(Scn { kind: "block-eof(packet input)".into(), cut: "between-emptiness-and-liveness-read".into(), b, need: 0, k, offset: 0 });
    }
    // MTGraph: `need` = number of liveness reads of the middle thread to let pass first
    for &(b, k) in &[(0usize, 10usize), (100, 1), (500, 524), (1000, 24), (10, 3)] {
        for skip in [0usize, 1, 2] {
            g.push(Scn { kind: "MTGraph".into(), cut: "middle-thread-at-liveness-read".into(), b, need: skip, k, offset: 0 });
        }
    }
    g
}

pub fn main(opts: &Opts) -> Report {
    let mut rep = Report::new("C04");
    rep.rule = "finite grid of schedule scripts: (API: ReadStream::wait/eof, WriteStream::wait, NCReadStream::wait/eof, derive-generated block eof() with a packet input, 3-thread MTGraph) x (cut: peer's 'commit last data; go away' placed before the call, during the blocked wait, at the yield hook between the timed-out wait and the liveness read, commit only, between liveness and emptiness read, after the call) x (buffered, need, final commit) points; the actor thread is parked at the hook by hand-shake, confirmed by the script; distinct = scenario whose hand-shake was confirmed".into();
    rep.assume("park points are the library's yield hooks, all outside library locks: every scripted order is one the OS scheduler could produce by pre-empting the thread there");
    if let Some(path) = &opts.replay {
        let v: Value = serde_json::from_str(&std::fs::read_to_string(path).expect("replay file")).expect("json");
        let s = Scn::from_json(&v["replay"]).expect("scenario");
        rep.eval();
        let vd = run_scn(&s);
        for (class, d) in vd.findings {
            rep.violation(format!("C04|{}|{}|{class}", s.kind, s.cut), d, s.to_json());
        }
        return rep;
    }
    let grid = grid();
    let reps = if opts.thorough() { 6 } else { 1 };
    rep.exhaustive = Some(true);
    for round in 0..reps {
        for (i, s) in grid.iter().enumerate() {
            if (i + round) % opts.nshards != opts.shard {
                continue;
            }
            rep.eval();
            rep.count(&format!("scenarios:{}", s.kind), 1);
            let vd = match catch(|| run_scn(s)) {
                Ok(v) => v,
                Err(p) => {
                    rep.violation(format!("C04|{}|{}|panic", s.kind, s.cut), p, s.to_json());
                    continue;
                }
            };
            if let Some(why) = vd.inconclusive {
                // The hand-shake did not complete (e.g. the thread got past the park
                // site before the rule was armed on a loaded machine): this scenario
                // says nothing. It is counted; the check needs enough confirmed ones.
                rep.count("scripts_inconclusive", 1);
                rep.abandoned(format!("{why}: {}", s.to_json()));
                continue;
            }
            if vd.confirmed {
                rep.count("handshakes_confirmed", 1);
                rep.distinct(fnv_str(&format!("{:?}", s)));
            } else {
                rep.count("scripts_trivial", 1);
            }
            rep.set("cuts", format!("{}@{}", s.kind, s.cut));
            if rep.want_sample() {
                rep.sample(json!({"scenario": s.to_json(), "handshake_confirmed": vd.confirmed, "findings": vd.findings.len()}));
            }
            for (class, d) in vd.findings {
                rep.violation(format!("C04|{}|{}|{class}", s.kind, s.cut), format!("{d}; scenario {}", s.to_json()), s.to_json());
            }
        }
    }
    rep
}
