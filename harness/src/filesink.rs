//! C17: file sink open modes, and "consumed means on disk" under SIGKILL.
use crate::rec;
use crate::util::*;
use rustradio::block::Block;
use rustradio::blocks::{FileSink, NoCopyFileSink};
use rustradio::file_sink::Mode;
use rustradio::stream::{new_nocopy_stream, new_stream};
use rustradio::verif::Ev;
use serde_json::{Value, json};
use std::io::Read;
use std::os::unix::fs::PermissionsExt;
use std::os::unix::process::CommandExt;

/// Previous content of the "non-empty" / "unwritable" initial states: longer than
/// anything the sinks write in the mode cases, so that an overwrite that does not
/// truncate leaves a visible stale tail.
fn old_content() -> Vec<u8> {
    (0..5000u32).map(|i| b'a' + (i % 23) as u8).collect()
}

fn mode_of(s: &str) -> Mode {
    match s {
        "Create" => Mode::Create,
        "Overwrite" => Mode::Overwrite,
        _ => Mode::Append,
    }
}

/// Run one (sink kind, mode, initial state) case in this process. Returns a
/// JSON line: {"open_ok": bool, "content": [bytes] | null}
pub fn modes_child(args: &[String]) -> i32 {
    let (kind, mode, path) = (&args[0], &args[1], &args[2]);
    rec::install(false);
    let data: Vec<u32> = (0..300u32).map(|i| i * 7 + 1).collect();
    let new_bytes: Vec<u8> = if kind == "copy" {
        data.iter().flat_map(|x| x.to_le_bytes()).collect()
    } else {
        (0..20).flat_map(|i| format!("pkt-{i}\n").into_bytes()).collect()
    };
    let open_ok;
    if kind == "copy" {
        let (w, r) = new_stream::<u32>();
        match FileSink::new(r, path, mode_of(mode)) {
            Err(_) => open_ok = false,
            Ok(mut s) => {
                open_ok = true;
                let mut wb = w.write_buf().unwrap();
                wb.slice()[..data.len()].copy_from_slice(&data);
                wb.produce(data.len(), &[]);
                drop(w);
                for _ in 0..4 {
                    let _ = s.work();
                }
            }
        }
    } else {
        let (w, r) = new_nocopy_stream::<String>();
        match NoCopyFileSink::new(r, path, mode_of(mode)) {
            Err(_) => open_ok = false,
            Ok(mut s) => {
                open_ok = true;
                for i in 0..20 {
                    w.push(format!("pkt-{i}"), &[]);
                }
                drop(w);
                for _ in 0..25 {
                    let _ = s.work();
                }
            }
        }
    }
    let content = std::fs::read(path).ok();
    println!("{}", json!({"open_ok": open_ok, "content_len": content.as_ref().map(|c| c.len()), "is_new": content.as_deref() == Some(&new_bytes[..]),
        "is_old_plus_new": content.as_ref().map(|c| c.len() == old_content().len() + new_bytes.len() && c.starts_with(&old_content()) && c.ends_with(&new_bytes)),
        "is_old": content.as_deref() == Some(&old_content()[..])}));
    0
}

/// Two sinks created concurrently with Mode::Create on one absent path: the file
/// exists for exactly one of them, so exactly one may succeed.
fn create_race(rep: &mut Report) {
    use std::sync::{Arc, Barrier};
    let dir = tempfile::tempdir().expect("tempdir");
    let rounds = 300;
    let mut both = 0;
    for k in 0..rounds {
        let path = dir.path().join(format!("race-{k}"));
        let barrier = Arc::new(Barrier::new(2));
        let hs: Vec<_> = (0..2)
            .map(|_| {
                let (p, b) = (path.clone(), barrier.clone());
                std::thread::spawn(move || {
                    let (_w, r) = new_stream::<u32>();
                    b.wait();
                    FileSink::new(r, &p, Mode::Create).is_ok()
                })
            })
            .collect();
        let oks = hs.into_iter().map(|h| h.join().unwrap_or(false)).filter(|x| *x).count();
        rep.count("create_race_rounds", 1);
        if oks == 2 {
            both += 1;
        } else if oks == 0 {
            rep.violation("C17|modes|copy|Create|race|both-failed", format!("round {k}: two concurrent Mode::Create on an absent path both failed"), json!({"part": "create-race"}));
            return;
        }
    }
    if both > 0 {
        rep.violation("C17|modes|copy|Create|race|both-succeeded", format!("two concurrent Mode::Create opens of the same absent path both succeeded in {both} of {rounds} rounds (create must fail if and only if the file exists)"), json!({"part": "create-race"}));
    }
    // A dangling symlink is a path that exists: Create must not follow it.
    let link = dir.path().join("dangling");
    if std::os::unix::fs::symlink(dir.path().join("no-such-target"), &link).is_ok() {
        let (_w, r) = new_stream::<u32>();
        rep.count("mode_cases", 1);
        if FileSink::new(r, &link, Mode::Create).is_ok() {
            rep.violation("C17|modes|copy|Create|dangling-symlink|open-succeeded", "Mode::Create on a dangling symbolic link succeeded (and created the link's target)".to_string(), json!({"part": "create-symlink"}));
        }
    }
}

fn unprivileged_exe() -> std::path::PathBuf {
    // uid 65534 must be able to execute the harness; if its directory is not
    // world-searchable (e.g. under /root), use a copy in the temp directory.
    let exe = std::env::current_exe().expect("exe");
    let probe = std::process::Command::new(&exe).arg("c17-child").arg("noop").uid(65534).gid(65534).output();
    // SAFETY: geteuid has no preconditions.
    if unsafe { libc::geteuid() } != 0 || probe.is_ok() {
        return exe;
    }
    let dst = std::env::temp_dir().join(format!("rrverif-c17-{}", std::process::id()));
    if std::fs::copy(&exe, &dst).is_ok() {
        let _ = std::fs::set_permissions(&dst, std::fs::Permissions::from_mode(0o755));
        return dst;
    }
    exe
}

fn modes(rep: &mut Report) {
    let exe = unprivileged_exe();
    for kind in ["copy", "packet"] {
        for mode in ["Create", "Overwrite", "Append"] {
            for initial in ["absent", "empty", "non-empty", "directory", "unwritable"] {
                rep.eval();
                rep.count("mode_cases", 1);
                rep.distinct(fnv_str(&format!("{kind}{mode}{initial}")));
                let dir = tempfile::tempdir().expect("tempdir");
                std::fs::set_permissions(dir.path(), std::fs::Permissions::from_mode(0o777)).ok();
                let path = dir.path().join("out.bin");
                match initial {
                    "empty" => std::fs::write(&path, b"").unwrap(),
                    "non-empty" => std::fs::write(&path, old_content()).unwrap(),
                    "directory" => std::fs::create_dir(&path).unwrap(),
                    "unwritable" => {
                        std::fs::write(&path, old_content()).unwrap();
                        std::fs::set_permissions(&path, std::fs::Permissions::from_mode(0o444)).unwrap();
                    }
                    _ => {}
                }
                if initial != "directory" && initial != "absent" && initial != "unwritable" {
                    std::fs::set_permissions(&path, std::fs::Permissions::from_mode(0o666)).ok();
                }
                let mut cmd = std::process::Command::new(&exe);
                cmd.arg("c17-child").arg("modes").arg(kind).arg(mode).arg(&path);
                // root ignores permission bits: run the case as an unprivileged user
                // SAFETY: geteuid has no preconditions.
                let root = unsafe { libc::geteuid() } == 0;
                if root {
                    cmd.uid(65534).gid(65534);
                }
                let replay = json!({"part": "modes", "sink": kind, "mode": mode, "initial": initial});
                let o = match cmd.output() {
                    Ok(o) => o,
                    Err(e) => {
                        rep.inconclusive(format!("cannot run modes child: {e}"));
                        continue;
                    }
                };
                let v: Option<Value> = String::from_utf8_lossy(&o.stdout).lines().rev().find_map(|l| serde_json::from_str(l).ok());
                let Some(v) = v else {
                    rep.violation(format!("C17|modes|{kind}|{mode}|{initial}|child-died"), format!("status {:?}: {}", o.status.code(), String::from_utf8_lossy(&o.stderr).chars().take(300).collect::<String>()), replay);
                    continue;
                };
                let open_ok = v["open_ok"].as_bool().unwrap_or(false);
                // documented table
                let (want_ok, want): (bool, &str) = match (mode, initial) {
                    ("Create", "absent") => (true, "new"),
                    ("Create", _) => (false, "unchanged"),
                    ("Overwrite", "absent") | ("Overwrite", "empty") | ("Overwrite", "non-empty") => (true, "new"),
                    ("Append", "absent") | ("Append", "empty") => (true, "new"),
                    ("Append", "non-empty") => (true, "old+new"),
                    (_, "directory") | (_, "unwritable") => (false, "unchanged"),
                    _ => unreachable!(),
                };
                if open_ok != want_ok {
                    rep.violation(
                        format!("C17|modes|{kind}|{mode}|{initial}|open-{}", if open_ok { "succeeded" } else { "failed" }),
                        format!("{} sink, Mode::{mode}, initial state {initial}: opening {} but the documentation says it {}", kind, if open_ok { "succeeded" } else { "failed" }, if want_ok { "succeeds" } else { "fails" }),
                        replay,
                    );
                    continue;
                }
                let ok = match want {
                    "new" => v["is_new"].as_bool() == Some(true),
                    "old+new" => v["is_old_plus_new"].as_bool() == Some(true),
                    _ => initial == "absent" && v["content_len"].is_null() || initial == "directory" || initial == "empty" && v["content_len"].as_u64() == Some(0) || v["is_old"].as_bool() == Some(true),
                };
                if !ok {
                    rep.violation(format!("C17|modes|{kind}|{mode}|{initial}|content"), format!("file content after the run is not '{want}': {v}"), replay);
                }
            }
        }
    }
    if exe != std::env::current_exe().expect("exe") {
        let _ = std::fs::remove_file(&exe);
    }
}

/// Crash child: stream unique records through the sink; after every work()
/// return, report the cumulative number consumed by returned calls (one write(2)).
pub fn crash_child(args: &[String]) -> i32 {
    let (kind, path, total, seed) = (&args[0], &args[1], args[2].parse::<usize>().unwrap(), args[3].parse::<u64>().unwrap());
    rec::install(true);
    rec::set_record_yields(false);
    let report = |n: u64| {
        let b = n.to_le_bytes();
        // SAFETY: writes 8 bytes from a live buffer to stdout.
        unsafe { libc::write(1, b.as_ptr() as *const libc::c_void, 8) };
    };
    let mut consumed = 0u64;
    if kind == "copy" {
        rec::stream_size(rec::PAGE);
        let (w, r) = new_stream::<u32>();
        rec::stream_size(0);
        let mut sink = FileSink::new(r, path, Mode::Overwrite).expect("open");
        let feeder = std::thread::spawn(move || {
            let mut rng = Rng::new(seed);
            let mut next = 0u32;
            while (next as usize) < total {
                let mut wb = w.write_buf().unwrap();
                let n = std::cmp::min(std::cmp::min(wb.len(), rng.range(1, 300)), total - next as usize);
                for i in 0..n {
                    wb.slice()[i] = next + i as u32;
                }
                wb.produce(n, &[]);
                next += n as u32;
                if rng.chance(1, 3) {
                    std::thread::sleep(std::time::Duration::from_micros(rng.below(200) as u64));
                }
            }
        });
        loop {
            let r = sink.work();
            for e in rec::take() {
                if let Ev::Consume { n, .. } = e.ev {
                    consumed += n as u64;
                }
            }
            report(consumed);
            if r.is_err() || consumed as usize >= total {
                break;
            }
        }
        let _ = feeder.join();
    } else {
        let (w, r) = new_nocopy_stream::<String>();
        let mut sink = NoCopyFileSink::new(r, path, Mode::Overwrite).expect("open");
        let feeder = std::thread::spawn(move || {
            let mut rng = Rng::new(seed);
            for i in 0..total {
                w.push(format!("record-{i:08}"), &[]);
                if rng.chance(1, 4) {
                    std::thread::sleep(std::time::Duration::from_micros(rng.below(100) as u64));
                }
            }
        });
        loop {
            let r = sink.work();
            for e in rec::take() {
                if let Ev::NcPopped { got: true, .. } = e.ev {
                    consumed += 1;
                }
            }
            report(consumed);
            if r.is_err() || consumed as usize >= total {
                break;
            }
        }
        let _ = feeder.join();
    }
    0
}

fn crashes(opts: &Opts, rep: &mut Report) {
    let exe = std::env::current_exe().expect("exe");
    let mut rng = Rng::new(opts.shard_seed() ^ 0xC17);
    let kills = opts.budget(16 * 300, 16 * 6000);
    for k in 0..kills {
        let kind = if k % 2 == 0 { "copy" } else { "packet" };
        let total = if kind == "copy" { rng.range(2_000, 200_000) } else { rng.range(200, 5_000) };
        let seed = rng.next();
        let kill_after_reports = rng.range(0, 400) as u64;
        let kill_delay_us = rng.range(0, 3000) as u64;
        let dir = tempfile::tempdir().expect("tempdir");
        let path = dir.path().join("sink.bin");
        rep.eval();
        rep.count("kills", 1);
        let replay = json!({"part": "crash", "sink": kind, "total": total, "seed": seed.to_string(), "kill_after_reports": kill_after_reports, "kill_delay_us": kill_delay_us});
        let mut child = match std::process::Command::new(&exe)
            .arg("c17-child").arg("crash").arg(kind).arg(&path).arg(total.to_string()).arg(seed.to_string())
            .stdout(std::process::Stdio::piped())
            .stderr(std::process::Stdio::null())
            .spawn()
        {
            Ok(c) => c,
            Err(e) => {
                rep.inconclusive(format!("cannot spawn crash child: {e}"));
                continue;
            }
        };
        let mut out = child.stdout.take().unwrap();
        let mut buf = Vec::new();
        let mut chunk = [0u8; 4096];
        let mut finished = false;
        // read reports until the kill point
        while (buf.len() / 8) as u64 <= kill_after_reports {
            match out.read(&mut chunk) {
                Ok(0) => {
                    finished = true;
                    break;
                }
                Ok(n) => buf.extend_from_slice(&chunk[..n]),
                Err(_) => break,
            }
        }
        if !finished {
            std::thread::sleep(std::time::Duration::from_micros(kill_delay_us));
            // SAFETY: kill(2) on our own child.
            unsafe { libc::kill(child.id() as i32, libc::SIGKILL) };
        }
        // drain what the child reported before dying
        let _ = out.read_to_end(&mut buf);
        let _ = child.wait();
        if finished {
            rep.count("children_finished_before_kill", 1);
        }
        let nrep = buf.len() / 8;
        let acked = if nrep == 0 { 0 } else { u64::from_le_bytes(buf[(nrep - 1) * 8..nrep * 8].try_into().unwrap()) };
        let file = std::fs::read(&path).unwrap_or_default();
        rep.count("reports_read", nrep as u64);
        rep.distinct(hmix(acked, file.len() as u64));
        if rep.want_sample() {
            rep.sample(json!({"sink": kind, "total": total, "reports_before_kill": nrep, "acknowledged": acked, "file_bytes": file.len(), "finished": finished}));
        }
        if kind == "copy" {
            let whole = file.len() / 4;
            let prefix_ok = file.chunks_exact(4).enumerate().all(|(i, c)| u32::from_le_bytes(c.try_into().unwrap()) == i as u32) && whole <= total;
            if !prefix_ok {
                rep.violation("C17|crash|copy|file-not-a-prefix", format!("file of {} bytes is not a prefix of the serialised stream", file.len()), replay.clone());
            }
            if (whole as u64) < acked {
                rep.violation("C17|crash|copy|acknowledged-samples-missing", format!("work() calls that returned had consumed {acked} samples, the file holds {whole}"), replay.clone());
            }
            if whole as u64 > acked {
                rep.count("kills_with_unacknowledged_data_on_disk", 1);
            }
        } else {
            let txt = String::from_utf8_lossy(&file).to_string();
            let lines: Vec<&str> = txt.split_inclusive('\n').collect();
            let complete = lines.iter().filter(|l| l.ends_with('\n')).count();
            let prefix_ok = lines.iter().enumerate().all(|(i, l)| {
                let want = format!("record-{i:08}\n");
                if l.ends_with('\n') { **l == want } else { want.starts_with(*l) }
            });
            if !prefix_ok {
                rep.violation("C17|crash|packet|file-not-a-prefix", format!("file of {} bytes is not a prefix of the record stream", file.len()), replay.clone());
            }
            // The packet sink pops before it writes; a work() call that *returned*
            // has written and flushed its record.
            if (complete as u64) < acked {
                rep.violation("C17|crash|packet|acknowledged-records-missing", format!("returned work() calls had consumed {acked} records, the file holds {complete} complete ones"), replay.clone());
            }
        }
    }
}

/// "Consumed means in the file" while the device is failing or slow: the
/// samples a sink has acknowledged (consumed from its input, which upstream
/// sees as free space) must never be ahead of what the file has accepted, also
/// in the middle of a work() call and when the write fails.
fn failing_and_slow_device(rep: &mut Report) {
    // (a) every write fails (ENOSPC): nothing reaches the file, so nothing may be consumed.
    for pieces in [1usize, 3] {
        rep.eval();
        rep.count("failing_device_cases", 1);
        let replay = json!({"part": "failing-device", "pieces": pieces});
        let (w, r) = new_stream::<u8>();
        let sink = FileSink::new(r, "/dev/full", Mode::Append);
        let mut sink = match sink {
            Ok(s) => s,
            Err(e) => {
                rep.inconclusive(format!("cannot open /dev/full: {e}"));
                return;
            }
        };
        rec::install(true);
        rec::clear();
        for p in 0..pieces {
            let mut wb = w.write_buf().unwrap();
            for (i, b) in wb.slice()[..1000].iter_mut().enumerate() {
                *b = (i + p) as u8;
            }
            wb.produce(1000, &[]);
        }
        rec::clear();
        let res = catch(|| sink.work().map(|_| ()).map_err(|e| format!("{e}")));
        let consumed: usize = rec::take().iter().map(|r| if let Ev::Consume { n, .. } = r.ev { n } else { 0 }).sum();
        match res {
            Err(p) => rep.violation("C17|failing-device|panic", format!("work() panicked on a full device: {p}"), replay),
            Ok(r) => {
                if consumed > 0 {
                    rep.violation(
                        "C17|failing-device|consumed-samples-that-are-not-in-the-file",
                        format!("every write to the sink's file fails (ENOSPC) and work() returned {r:?}, yet the call consumed {consumed} samples: they are acknowledged and in no file"),
                        replay,
                    );
                } else if r.is_ok() {
                    rep.count("failing_device_reported_ok_without_consuming", 1);
                } else {
                    rep.count("failing_device_error_reported_nothing_consumed", 1);
                }
            }
        }
    }
    // (a0) after every work() call the file holds everything consumed so far,
    // for small and for large pieces (a BufWriter passes pieces of 8 KiB and more
    // straight through and buffers the rest).
    {
        rep.eval();
        let dir = tempfile::tempdir().expect("tempdir");
        // packet sink: one record per call
        let ppath = dir.path().join("records.txt");
        let (pw, pr) = new_nocopy_stream::<String>();
        if let Ok(mut psink) = NoCopyFileSink::new(pr, &ppath, Mode::Overwrite) {
            let mut want = 0usize;
            let mut want_bytes: Vec<u8> = Vec::new();
            for len in [1usize, 100, 8190, 8191, 8192, 8193, 20_000, 3, 65_536, 7, 12] {
                // every third record holds text outside ASCII (its bytes are its UTF-8 form)
                let rec: String = if len % 3 == 0 { (0..len).map(|i| ['a', '\u{e9}', '\u{b0}', '\u{20ac}', 'z'][i % 5]).collect() } else { (0..len).map(|i| (b'a' + (i % 26) as u8) as char).collect() };
                let len = rec.len();
                want_bytes.extend_from_slice(rec.as_bytes());
                want_bytes.push(10);
                pw.push(rec, &[]);
                let r = catch(|| psink.work().map(|_| ()).map_err(|e| format!("{e}")));
                want += len + 1;
                let on_disk = std::fs::metadata(&ppath).map(|m| m.len() as usize).unwrap_or(0);
                rep.count("per_call_on_disk_checks", 1);
                if !matches!(r, Ok(Ok(()))) {
                    rep.violation("C17|per-call|work-failed", format!("NoCopyFileSink::work: {r:?}"), json!({"part": "per-call", "sink": "packet", "len": len}));
                    break;
                }
                if on_disk != want {
                    rep.violation(
                        "C17|per-call|packet|consumed-but-not-in-the-file-when-work-returned",
                        format!("after the work() call that took a record of {len} bytes the file holds {on_disk} bytes, the records consumed so far serialise to {want}"),
                        json!({"part": "per-call", "sink": "packet", "len": len}),
                    );
                    break;
                }
            }
            match std::fs::read(&ppath) {
                Ok(b) if b == want_bytes => {}
                Ok(b) if b.len() == want_bytes.len() => rep.violation("C17|per-call|packet|file-content", "the packet file has the right length but not the records' UTF-8 bytes followed by a newline each".to_string(), json!({"part": "per-call", "sink": "packet"})),
                _ => {} // a length mismatch was reported by the per-call check above
            }
        }
        // sample sink
        let spath = dir.path().join("samples.bin");
        let (sw, sr) = new_stream::<u8>();
        if let Ok(mut ssink) = FileSink::new(sr, &spath, Mode::Overwrite) {
            let mut want = 0usize;
            for len in [1usize, 100, 8191, 8192, 8193, 50_000, 5] {
                {
                    let mut wb = sw.write_buf().unwrap();
                    for b in wb.slice()[..len].iter_mut() {
                        *b = 0x5a;
                    }
                    wb.produce(len, &[]);
                }
                let r = catch(|| ssink.work().map(|_| ()).map_err(|e| format!("{e}")));
                want += len;
                let on_disk = std::fs::metadata(&spath).map(|m| m.len() as usize).unwrap_or(0);
                rep.count("per_call_on_disk_checks", 1);
                if !matches!(r, Ok(Ok(()))) || on_disk != want {
                    rep.violation(
                        "C17|per-call|copy|consumed-but-not-in-the-file-when-work-returned",
                        format!("after the work() call that took {len} samples ({r:?}) the file holds {on_disk} bytes, consumed so far {want}"),
                        json!({"part": "per-call", "sink": "copy", "len": len}),
                    );
                    break;
                }
            }
        }
    }
    // (a0) wide samples and large backlogs: one work() call sees up to 2.8 MB of
    // serialised samples (default-size stream). Whenever the sink has taken everything
    // off the stream, the file must hold exactly the samples committed so far.
    {
        rep.eval();
        let dir = tempfile::tempdir().expect("tempdir");
        let wpath = dir.path().join("wide.bin");
        let (ww, wr) = new_stream::<u32>();
        let cap = ww.free();
        if let Ok(mut wsink) = FileSink::new(wr, &wpath, Mode::Overwrite) {
            let mut expect: Vec<u8> = Vec::new();
            let mut next = 1u32;
            for len in [1usize, 70_000, 300_000, 700_000, 3, 1_000_000] {
                let len = std::cmp::min(len, cap);
                {
                    let mut wb = ww.write_buf().unwrap();
                    for v in wb.slice()[..len].iter_mut() {
                        *v = next;
                        expect.extend(next.to_le_bytes());
                        next = next.wrapping_mul(2654435761).wrapping_add(12345);
                    }
                    wb.produce(len, &[]);
                }
                let mut r = Ok(Ok(()));
                for _ in 0..64 {
                    r = catch(|| wsink.work().map(|_| ()).map_err(|e| format!("{e}")));
                    if !matches!(r, Ok(Ok(()))) || ww.free() == cap {
                        break;
                    }
                }
                rep.count("per_call_on_disk_checks", 1);
                rep.count("large_backlog_checks", 1);
                let on_disk = std::fs::read(&wpath).unwrap_or_default();
                if !matches!(r, Ok(Ok(()))) || ww.free() != cap || on_disk != expect {
                    let at = on_disk.iter().zip(&expect).take_while(|(a, b)| a == b).count();
                    rep.violation(
                        "C17|per-call|copy-u32|consumed-but-not-in-the-file-when-work-returned",
                        format!("after a backlog of {len} u32 samples was taken ({r:?}; {} of {cap} samples free) the file holds {} bytes, committed so far {}; first difference at byte {at}", ww.free(), on_disk.len(), expect.len()),
                        json!({"part": "per-call", "sink": "copy-u32", "len": len}),
                    );
                    break;
                }
            }
        }
    }
    // (a1) the kernel accepts only part of a write (file size limit reached in
    // the middle of it; SIGXFSZ ignored so the following write fails with EFBIG):
    // whatever work() answers, it must not have consumed more than the file holds.
    {
        rep.eval();
        rep.count("short_write_cases", 1);
        let replay = json!({"part": "short-write"});
        let dir = tempfile::tempdir().expect("tempdir");
        let path = dir.path().join("limited.bin");
        let (w, r) = new_stream::<u8>();
        let total = 300_000usize;
        let limit = 100_000u64;
        match FileSink::new(r, &path, Mode::Overwrite) {
            Err(e) => rep.inconclusive(format!("cannot create {path:?}: {e}")),
            Ok(mut sink) => {
                {
                    let mut wb = w.write_buf().unwrap();
                    for (i, b) in wb.slice()[..total].iter_mut().enumerate() {
                        *b = (i % 251) as u8;
                    }
                    wb.produce(total, &[]);
                }
                let mut old = libc::rlimit { rlim_cur: 0, rlim_max: 0 };
                unsafe {
                    libc::getrlimit(libc::RLIMIT_FSIZE, &mut old);
                    libc::signal(libc::SIGXFSZ, libc::SIG_IGN);
                    let lim = libc::rlimit { rlim_cur: limit, rlim_max: old.rlim_max };
                    libc::setrlimit(libc::RLIMIT_FSIZE, &lim);
                }
                rec::install(true);
                rec::clear();
                let res = catch(|| sink.work().map(|_| ()).map_err(|e| format!("{e}")));
                let consumed: usize = rec::take().iter().map(|r| if let Ev::Consume { n, .. } = r.ev { n } else { 0 }).sum();
                unsafe {
                    libc::setrlimit(libc::RLIMIT_FSIZE, &old);
                    libc::signal(libc::SIGXFSZ, libc::SIG_DFL);
                }
                let on_disk = std::fs::metadata(&path).map(|m| m.len() as usize).unwrap_or(0);
                match res {
                    Err(p) => rep.violation("C17|short-write|panic", format!("work() panicked: {p}"), replay),
                    Ok(r) => {
                        if consumed > on_disk {
                            rep.violation(
                                "C17|short-write|consumed-samples-that-are-not-in-the-file",
                                format!("the kernel accepted {on_disk} of {total} bytes (file size limit) and work() returned {r:?}, yet {consumed} samples were consumed"),
                                replay,
                            );
                        } else {
                            rep.count("short_write_consumed_at_most_what_is_on_disk", 1);
                        }
                    }
                }
                drop(sink);
            }
        }
    }
    // (a2) two sinks appending to one file: "append keeps existing content" also
    // when that content was written (by the other sink) after this sink was opened.
    {
        rep.eval();
        rep.count("two_appenders_cases", 1);
        let replay = json!({"part": "two-appenders"});
        let dir = tempfile::tempdir().expect("tempdir");
        let path = dir.path().join("shared.log");
        let (wa, ra) = new_stream::<u8>();
        let (wb, rb) = new_stream::<u8>();
        match (FileSink::new(ra, &path, Mode::Append), FileSink::new(rb, &path, Mode::Append)) {
            (Ok(mut a), Ok(mut b)) => {
                let mut want: Vec<u8> = Vec::new();
                let mut failed = None;
                for round in 0..20u8 {
                    for (w, sink, len, base) in [(&wa, &mut a, 50usize, b'a'), (&wb, &mut b, 70usize, b'A')] {
                        let piece: Vec<u8> = (0..len).map(|i| base + ((round as usize + i) % 26) as u8).collect();
                        let mut wbuf = w.write_buf().unwrap();
                        wbuf.slice()[..len].copy_from_slice(&piece);
                        wbuf.produce(len, &[]);
                        if let Err(e) = sink.work().map(|_| ()) {
                            failed = Some(format!("{e}"));
                        }
                        want.extend_from_slice(&piece);
                    }
                }
                drop(a);
                drop(b);
                let got = std::fs::read(&path).unwrap_or_default();
                if let Some(e) = failed {
                    rep.violation("C17|two-appenders|work-error", format!("work() failed: {e}"), replay);
                } else if got != want {
                    rep.violation(
                        "C17|two-appenders|existing-content-not-kept",
                        format!("two FileSinks in Append mode wrote 20 alternating pieces each to one file: it holds {} bytes, expected all {} in the order of the work() calls (equal prefix {})", got.len(), want.len(), got.iter().zip(&want).take_while(|(x, y)| x == y).count()),
                        replay,
                    );
                }
            }
            (a, b) => rep.violation("C17|two-appenders|open-failed", format!("Append on a fresh path: {:?} / {:?}", a.err().map(|e| e.to_string()), b.err().map(|e| e.to_string())), replay),
        }
    }
    // (b) the device accepts 64 KiB and then stalls (a FIFO whose reader does not
    // read yet): while it stalls, acknowledged <= accepted by the device.
    rep.eval();
    let replay = json!({"part": "slow-device"});
    let dir = tempfile::tempdir().expect("tempdir");
    let path = dir.path().join("slow.fifo");
    let cpath = std::ffi::CString::new(path.to_str().unwrap()).unwrap();
    if unsafe { libc::mkfifo(cpath.as_ptr(), 0o600) } != 0 {
        rep.inconclusive("mkfifo failed".to_string());
        return;
    }
    let (tx_sz, rx_sz) = std::sync::mpsc::channel::<(i32, usize)>();
    let (tx_go, rx_go) = std::sync::mpsc::channel::<()>();
    let rpath = path.clone();
    let reader = std::thread::spawn(move || -> Vec<u8> {
        use std::os::fd::AsRawFd;
        let mut f = std::fs::File::open(&rpath).expect("open fifo for reading");
        let sz = unsafe { libc::fcntl(f.as_raw_fd(), libc::F_GETPIPE_SZ) };
        let _ = tx_sz.send((f.as_raw_fd(), if sz > 0 { sz as usize } else { 65536 }));
        let _ = rx_go.recv();
        let mut v = Vec::new();
        let _ = f.read_to_end(&mut v);
        v
    });
    let (w, r) = new_stream::<u8>();
    let sink = match FileSink::new(r, &path, Mode::Append) {
        Ok(s) => s,
        Err(e) => {
            rep.inconclusive(format!("cannot open the fifo: {e}"));
            let _ = tx_go.send(());
            return;
        }
    };
    let (rfd, pipe_sz) = rx_sz.recv_timeout(std::time::Duration::from_secs(10)).unwrap_or((-1, 65536));
    let capacity = w.free();
    let total = std::cmp::min(1usize << 20, capacity);
    let data: Vec<u8> = (0..total).map(|i| (i as u32).wrapping_mul(2654435761).to_le_bytes()[3]).collect();
    {
        let mut wb = w.write_buf().unwrap();
        wb.slice()[..total].copy_from_slice(&data);
        wb.produce(total, &[]);
    }
    let entered = std::sync::Arc::new(std::sync::atomic::AtomicBool::new(false));
    let e2 = entered.clone();
    let worker = std::thread::spawn(move || -> Result<(), String> {
        let mut sink = sink;
        for _ in 0..64 {
            e2.store(true, std::sync::atomic::Ordering::SeqCst);
            sink.work().map(|_| ()).map_err(|e| format!("{e}"))?;
        }
        drop(sink);
        Ok(())
    });
    // watch the acknowledgements while the device stalls
    let t0 = std::time::Instant::now();
    let mut max_acked = 0usize;
    let mut samples = 0u64;
    let mut in_pipe = 0i32;
    while t0.elapsed() < std::time::Duration::from_millis(400) {
        std::thread::sleep(std::time::Duration::from_millis(4));
        if !entered.load(std::sync::atomic::Ordering::SeqCst) {
            continue;
        }
        let acked = total - (capacity - w.free());
        max_acked = max_acked.max(acked);
        samples += 1;
        if rfd >= 0 {
            unsafe { libc::ioctl(rfd, libc::FIONREAD, &mut in_pipe) };
        }
        if in_pipe > 0 && samples > 20 {
            break;
        }
    }
    let stalled = in_pipe > 0 || samples > 0;
    let _ = tx_go.send(());
    let wres = worker.join();
    drop(w);
    let got = reader.join().unwrap_or_default();
    rep.count("slow_device_cases", 1);
    rep.count("slow_device_ack_samples", samples);
    if !stalled {
        rep.abandoned("slow device: the sink never started writing within 400 ms".to_string());
    } else if max_acked > pipe_sz {
        rep.violation(
            "C17|slow-device|acknowledged-ahead-of-the-file",
            format!("the sink's device accepted at most {pipe_sz} bytes and then stalled, but {max_acked} of {total} input samples were already consumed (acknowledged upstream) inside the blocked work() call: a kill at that moment loses acknowledged samples"),
            replay.clone(),
        );
    }
    match wres {
        Ok(Ok(())) => {
            if got != data {
                rep.violation("C17|slow-device|content", format!("after the device caught up the file holds {} bytes, expected the {} fed (equal prefix {})", got.len(), data.len(), got.iter().zip(&data).take_while(|(a, b)| a == b).count()), replay);
            }
        }
        Ok(Err(e)) => rep.violation("C17|slow-device|work-error", format!("work() failed on a slow device: {e}"), replay),
        Err(p) => rep.violation("C17|slow-device|panic", panic_msg(&p), replay),
    }
}

pub fn main(opts: &Opts) -> Report {
    let mut rep = Report::new("C17");
    rep.rule = "modes: {Create, Overwrite, Append} x {absent, empty, non-empty, directory, unwritable} x {FileSink, NoCopyFileSink}, each case in a child process running as uid 65534 (root ignores mode bits), compared with the documented table (exhaustive, 30 cases); crash points: a child streams unique samples/records through a one-page stream into the sink from a feeder thread while the main thread loops work() and reports, after every return, the cumulative count consumed by returned calls with one write(2); the parent SIGKILLs after a seeded number of reports plus a seeded delay; the file must be a prefix of the serialised stream holding at least the last acknowledged count; after every work() call the file holds all that was consumed (pieces of 1 byte to 64 KiB); a sink on /dev/full (every write fails) must consume nothing, a sink whose write is cut short by the file size limit must not have consumed more than the file holds, two sinks appending alternately to one file must leave every piece in call order, and a sink on a FIFO that accepts one pipe buffer and then stalls must not have acknowledged more than the device accepted while its work() call is blocked; distinct = (acknowledged, bytes on disk) pairs".into();
    rep.assume("durability means 'in the file as seen after SIGKILL' (page cache), not power-loss durability");
    rep.exhaustive = Some(false);
    if opts.shard == 0 {
        modes(&mut rep);
        create_race(&mut rep);
    }
    if opts.shard % 4 == 1 || opts.nshards == 1 {
        failing_and_slow_device(&mut rep);
    }
    crashes(opts, &mut rep);
    rep
}
