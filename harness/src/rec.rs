//! Event recorder: receives the hook events of the library (feature `verif`).
//!
//! State events are appended to one global log under one mutex. They are
//! emitted by the library while it holds the stream's own lock, so for each
//! stream the order in the log is the order in which the implementation
//! serialised the operations. Yield events are dispatched to an optional
//! handler (schedule scripts, delay injector); they are emitted outside any
//! library lock and are the only place where a thread may be delayed.
use rustradio::verif::{Ev, set_callback};
use std::sync::atomic::{AtomicBool, AtomicU64, Ordering};
use std::sync::{Arc, Mutex, RwLock};

#[derive(Clone, Copy, Debug)]
pub struct Rec {
    pub seq: u64,
    pub tid: u64,
    /// Hash of the emitting thread's name (MTGraph names threads after blocks).
    pub role: u64,
    pub ev: Ev,
}

static LOG: Mutex<Vec<Rec>> = Mutex::new(Vec::new());
static RECORD: AtomicBool = AtomicBool::new(false);
static RECORD_YIELDS: AtomicBool = AtomicBool::new(false);
static SEQ: AtomicU64 = AtomicU64::new(0);
static NEXT_TID: AtomicU64 = AtomicU64::new(1);
static DATA_EVENTS: AtomicU64 = AtomicU64::new(0);
static YIELDS: AtomicU64 = AtomicU64::new(0);

pub type YieldHandler = Arc<dyn Fn(&Ev) + Send + Sync>;
static YIELD: RwLock<Option<YieldHandler>> = RwLock::new(None);

thread_local! {
    static TID: u64 = NEXT_TID.fetch_add(1, Ordering::Relaxed);
    static ROLE: u64 = crate::util::fnv_str(std::thread::current().name().unwrap_or("?"));
    static TL_DATA: std::cell::Cell<u64> = const { std::cell::Cell::new(0) };
}

pub fn role() -> u64 {
    ROLE.with(|t| *t)
}
/// Data-moving events emitted by the calling thread so far.
pub fn thread_data_events() -> u64 {
    TL_DATA.with(|c| c.get())
}
/// Progress that is not a stream event (a block was dropped, ...).
pub fn note_progress() {
    DATA_EVENTS.fetch_add(1, Ordering::Relaxed);
}

pub fn tid() -> u64 {
    TID.with(|t| *t)
}

thread_local! {
    /// Direction of the last stream wait entered on this thread: 1 = read side
    /// (an input), 2 = write side (an output), 0 = none seen since the reset.
    static WAIT_DIR: std::cell::Cell<u8> = const { std::cell::Cell::new(0) };
}
pub fn reset_wait_dir() {
    WAIT_DIR.with(|c| c.set(0));
}
pub fn wait_dir() -> u8 {
    WAIT_DIR.with(|c| c.get())
}

fn cb(ev: &Ev) {
    match ev {
        Ev::Yield { site, .. } => {
            match site {
                rustradio::verif::Site::WaitForRead | rustradio::verif::Site::NcWait => WAIT_DIR.with(|c| c.set(1)),
                rustradio::verif::Site::WaitForWrite => WAIT_DIR.with(|c| c.set(2)),
                _ => {}
            }
            YIELDS.fetch_add(1, Ordering::Relaxed);
            let h = YIELD.read().unwrap().clone();
            if let Some(h) = h {
                h(ev);
            }
            if RECORD_YIELDS.load(Ordering::Relaxed) && RECORD.load(Ordering::Relaxed) {
                push(ev);
            }
        }
        _ => {
            match ev {
                Ev::Produce { n, .. } | Ev::Consume { n, .. } if *n > 0 => {
                    DATA_EVENTS.fetch_add(1, Ordering::Relaxed);
                    TL_DATA.with(|c| c.set(c.get() + 1));
                }
                Ev::NcPushed { .. } | Ev::NcPopped { got: true, .. } => {
                    DATA_EVENTS.fetch_add(1, Ordering::Relaxed);
                    TL_DATA.with(|c| c.set(c.get() + 1));
                }
                Ev::BufferDropped { .. } => {
                    DATA_EVENTS.fetch_add(1, Ordering::Relaxed);
                }
                _ => {}
            }
            if RECORD.load(Ordering::Relaxed) {
                push(ev);
            }
        }
    }
}

fn push(ev: &Ev) {
    let mut l = LOG.lock().unwrap();
    let seq = SEQ.fetch_add(1, Ordering::Relaxed);
    l.push(Rec {
        seq,
        tid: tid(),
        role: role(),
        ev: *ev,
    });
}

/// Install the callback. `record` turns the log on.
pub fn install(record: bool) {
    RECORD.store(record, Ordering::SeqCst);
    set_callback(Some(cb));
}

/// Remove the callback entirely (used by sanitizer builds).
pub fn uninstall() {
    set_callback(None);
    RECORD.store(false, Ordering::SeqCst);
    *YIELD.write().unwrap() = None;
}

pub fn set_record(on: bool) {
    RECORD.store(on, Ordering::SeqCst);
}
pub fn set_record_yields(on: bool) {
    RECORD_YIELDS.store(on, Ordering::SeqCst);
}
pub fn set_yield_handler(h: Option<YieldHandler>) {
    *YIELD.write().unwrap() = h;
}

/// Take (and clear) the log.
pub fn take() -> Vec<Rec> {
    std::mem::take(&mut *LOG.lock().unwrap())
}
pub fn clear() {
    LOG.lock().unwrap().clear();
}
pub fn log_len() -> usize {
    LOG.lock().unwrap().len()
}
/// Number of data-moving events seen since process start (monotonic).
pub fn data_events() -> u64 {
    DATA_EVENTS.load(Ordering::Relaxed)
}
pub fn yields() -> u64 {
    YIELDS.load(Ordering::Relaxed)
}

/// Set stream size override in bytes (0 = library default).
pub fn stream_size(bytes: usize) {
    rustradio::verif::set_stream_size(bytes);
}

pub const PAGE: usize = 4096;
