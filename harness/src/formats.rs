//! C14: byte formats round-trip and survive arbitrary read segmentation.
use crate::drip::*;
use crate::duts::{gen_bytes, gen_f32};
use crate::rec;
use crate::util::*;
use rustradio::blocks::*;
use rustradio::file_sink::Mode;
use rustradio::{Complex, Float, Sample};
use serde_json::{Value, json};
use std::io::Write;

trait Ty: Samp + Sample<Type = Self> + std::fmt::Debug + Default + PartialEq {
    const NAME: &'static str;
    fn from_bits(r: &mut Rng) -> Self;
    fn boundaries() -> Vec<Self>;
    fn bits_eq(a: &Self, b: &Self) -> bool {
        crate::ring::as_bytes(std::slice::from_ref(a)) == crate::ring::as_bytes(std::slice::from_ref(b))
    }
}
impl Ty for u8 {
    const NAME: &'static str = "u8";
    fn from_bits(r: &mut Rng) -> Self {
        r.next() as u8
    }
    fn boundaries() -> Vec<Self> {
        vec![0, 1, 127, 128, 255]
    }
}
impl Ty for f32 {
    const NAME: &'static str = "f32";
    fn from_bits(r: &mut Rng) -> Self {
        f32::from_bits(r.next() as u32)
    }
    fn boundaries() -> Vec<Self> {
        vec![0.0, -0.0, f32::MIN, f32::MAX, f32::INFINITY, f32::NEG_INFINITY, f32::NAN, f32::from_bits(0x7f800001), f32::from_bits(0xffc12345), f32::MIN_POSITIVE, 1e-45]
    }
}
impl Ty for Complex {
    const NAME: &'static str = "Complex";
    fn from_bits(r: &mut Rng) -> Self {
        Complex::new(f32::from_bits(r.next() as u32), f32::from_bits(r.next() as u32))
    }
    fn boundaries() -> Vec<Self> {
        let b = <f32 as Ty>::boundaries();
        let mut v = Vec::new();
        for x in &b {
            for y in &b {
                v.push(Complex::new(*x, *y));
            }
        }
        v
    }
}

fn serialize_all<T: Sample<Type = T>>(v: &[T]) -> Vec<u8> {
    v.iter().flat_map(|s| s.serialize()).collect()
}

fn sample_roundtrip<T: Sample<Type = T> + Copy>(name: &str, vals: &[T], rep: &mut Report) {
    for v in vals {
        let b = v.serialize();
        rep.count("sample_roundtrips", 1);
        if b.len() != T::size() {
            rep.violation(format!("C14|Sample<{name}>|serialized-size"), format!("serialize() gave {} bytes, size() is {}", b.len(), T::size()), json!({"part": "sample", "type": name}));
            return;
        }
        match catch(|| T::parse(&b)) {
            Ok(Ok(p)) => {
                if crate::ring::as_bytes(std::slice::from_ref(&p)) != crate::ring::as_bytes(std::slice::from_ref(v)) {
                    rep.violation(format!("C14|Sample<{name}>|roundtrip"), format!("parse(serialize(x)) != x for bytes {b:?}"), json!({"part": "sample", "type": name, "bytes": b}));
                    return;
                }
            }
            Ok(Err(e)) => {
                rep.violation(format!("C14|Sample<{name}>|parse-error"), format!("{e}"), json!({"part": "sample", "type": name, "bytes": b}));
                return;
            }
            Err(p) => {
                rep.violation(format!("C14|Sample<{name}>|parse-panic"), p, json!({"part": "sample", "type": name, "bytes": b}));
                return;
            }
        }
    }
}

fn gen_len(rng: &mut Rng, cap: usize) -> usize {
    match rng.below(8) {
        0 => 0,
        1 => 1,
        2 => cap,
        3 => cap + 1,
        4 => cap - 1,
        _ => rng.range(0, 3 * cap),
    }
}

/// Run a source DUT (no inputs) under a seeded drain schedule; returns collected output.
fn run_source(dut: Dut, rng: &mut Rng) -> Result<Data, String> {
    let mut r = Runner::new(dut);
    let mut idle = 0;
    for _ in 0..200_000 {
        if r.dead {
            break;
        }
        let c = r.work();
        if c.verdict == Verdict::Eof {
            break;
        }
        if rng.chance(2, 3) {
            let j = match rng.below(4) {
                0 => 1,
                1 => rng.range(1, 40),
                _ => usize::MAX / 4,
            };
            r.drain(0, j);
        }
        if c.moved_any() {
            idle = 0;
        } else {
            idle += 1;
            if idle > 50 {
                r.drain(0, usize::MAX / 4);
            }
            if idle > 200 {
                return Err("source neither produced nor reported EOF in 200 calls".into());
            }
        }
    }
    if r.dead {
        return Err(format!("source died: {:?}", r.last_calls.last().and_then(|c| c.msg.clone())));
    }
    r.drain(0, usize::MAX / 4);
    Ok(r.outputs().pop().unwrap())
}

fn file_roundtrip<T: Ty>(rng: &mut Rng, rep: &mut Report) {
    let pages = *rng.pick(&[1usize, 1, 2]);
    let stream = pages * rec::PAGE;
    let cap = stream / std::mem::size_of::<T>();
    let n = gen_len(rng, cap);
    let data: Vec<T> = (0..n).map(|_| T::from_bits(rng)).collect();
    let dir = tempfile::tempdir().expect("tempdir");
    let path = dir.path().join("data.bin");
    let seed = rng.next();
    let replay = json!({"part": "file", "type": T::NAME, "n": n, "stream_bytes": stream, "seed": seed.to_string()});
    rep.count("file_roundtrips", 1);
    rep.count("bytes_moved", (n * T::size()) as u64);
    rep.set("types", T::NAME);
    // sink; half of the time the path already holds older, possibly longer content
    if rng.chance(1, 2) {
        let junk = gen_bytes(rng, rng.clone().range(0, 2 * cap * std::mem::size_of::<T>()));
        std::fs::write(&path, junk).ok();
        rep.count("file_roundtrips_over_existing_file", 1);
    }
    rec::stream_size(stream);
    let (inp, r) = CopyIn::new(data.clone());
    let sink = match FileSink::new(r, &path, Mode::Overwrite) {
        Ok(s) => s,
        Err(e) => {
            rep.inconclusive(format!("cannot create temp file: {e}"));
            return;
        }
    };
    rec::stream_size(0);
    let dut = Dut { name: "FileSink".into(), params: json!({}), block: Box::new(sink), ins: vec![Box::new(inp)], outs: vec![], keeps_history: 0, cleanup: None };
    let mut run = Runner::new(dut);
    let mut srng = Rng::new(seed);
    let mut steps = Vec::new();
    run_schedule(&mut run, &mut srng, &mut |_, _, _| {}, &mut |_| {}, &mut steps);
    if run.dead {
        rep.violation(format!("C14|FileSink<{}>|died", T::NAME), format!("{:?}", run.last_calls.last().and_then(|c| c.msg.clone())), replay);
        return;
    }
    drop(run);
    let on_disk = std::fs::read(&path).unwrap_or_default();
    if on_disk != serialize_all(&data) {
        rep.violation(format!("C14|FileSink<{}>|file-content", T::NAME), format!("file has {} bytes, serialised stream {}", on_disk.len(), n * T::size()), replay);
        return;
    }
    // source
    rec::stream_size(stream);
    let (src, o) = match FileSource::<T>::new(&path) {
        Ok(x) => x,
        Err(e) => {
            rep.violation(format!("C14|FileSource<{}>|open", T::NAME), format!("{e}"), replay);
            return;
        }
    };
    rec::stream_size(0);
    let dut = Dut { name: "FileSource".into(), params: json!({}), block: Box::new(src), ins: vec![], outs: vec![Box::new(CopyOut::new(o))], keeps_history: 0, cleanup: None };
    match run_source(dut, &mut srng) {
        Err(e) => rep.violation(format!("C14|FileSource<{}>|run", T::NAME), e, replay),
        Ok(got) => {
            if got.first_diff(&T::wrap(data)).is_some() {
                rep.violation(format!("C14|FileSource<{}>|roundtrip", T::NAME), format!("read back {} samples, wrote {n}", got.len()), replay);
            }
        }
    }
}

fn sigmf_meta<T: Ty + rustradio::sigmf::Type>() -> String {
    format!(
        "{{\"global\":{{\"core:datatype\":\"{}_le\",\"core:version\":\"1.1.0\",\"core:sample_rate\":48000.0}},\"captures\":[{{\"core:sample_start\":0}}],\"annotations\":[]}}",
        T::type_string()
    )
}

fn sigmf_roundtrip<T: Ty + rustradio::sigmf::Type>(rng: &mut Rng, rep: &mut Report) {
    let stream = rec::PAGE * *rng.pick(&[1usize, 2]);
    let cap = stream / std::mem::size_of::<T>();
    let n = gen_len(rng, cap);
    let data: Vec<T> = (0..n).map(|_| T::from_bits(rng)).collect();
    let bytes = serialize_all(&data);
    let dir = tempfile::tempdir().expect("tempdir");
    let archive = rng.chance(2, 3);
    let order = rng.below(6);
    let seed = rng.next();
    let replay = json!({"part": "sigmf", "type": T::NAME, "n": n, "archive": archive, "member_order": order, "seed": seed.to_string()});
    rep.count(if archive { "sigmf_archives" } else { "sigmf_recordings" }, 1);
    rep.count("bytes_moved", bytes.len() as u64);
    rep.set("types", T::NAME);
    let path = if archive {
        let p = dir.path().join("rec.sigmf");
        let f = std::fs::File::create(&p).unwrap();
        let mut tb = tar::Builder::new(f);
        let mut add = |name: &str, content: &[u8]| {
            let mut h = tar::Header::new_gnu();
            h.set_size(content.len() as u64);
            h.set_mode(0o644);
            h.set_cksum();
            tb.append_data(&mut h, name, content).unwrap();
        };
        let meta = sigmf_meta::<T>();
        let junk = gen_bytes(rng, 777);
        // members in every order, unrelated members before / between / after
        let members: Vec<(&str, Vec<u8>)> = vec![
            ("x/capture.sigmf-meta", meta.into_bytes()),
            ("x/capture.sigmf-data", bytes.clone()),
            ("x/README.txt", junk.clone()),
            ("unrelated.bin", junk),
        ];
        let perms: [[usize; 4]; 6] = [[0, 1, 2, 3], [1, 0, 2, 3], [2, 0, 3, 1], [2, 1, 3, 0], [3, 2, 1, 0], [0, 2, 1, 3]];
        rep.set("archive_member_orders", format!("{:?}", perms[order]));
        // a member with the data file's *name* in another directory belongs to
        // some other recording: it is not ours, wherever it sits in the archive
        let stray = gen_bytes(rng, 333);
        let stray_first = rng.chance(1, 2);
        let with_stray = rng.chance(1, 2);
        if with_stray && stray_first {
            add("old/capture.sigmf-data", &stray);
        }
        for i in perms[order] {
            add(members[i].0, &members[i].1);
        }
        if with_stray && !stray_first {
            add("old/capture.sigmf-data", &stray);
        }
        if with_stray {
            rep.count("archives_with_a_same_named_member_elsewhere", 1);
        }
        tb.finish().unwrap();
        drop(tb);
        p
    } else {
        let base = dir.path().join("capture.sigmf");
        std::fs::write(dir.path().join("capture.sigmf-meta"), sigmf_meta::<T>()).unwrap();
        std::fs::write(dir.path().join("capture.sigmf-data"), &bytes).unwrap();
        base
    };
    rec::stream_size(stream);
    let built = SigMFSourceBuilder::<T>::new(path).build();
    rec::stream_size(0);
    let (src, o) = match built {
        Ok(x) => x,
        Err(e) => {
            rep.violation(format!("C14|SigMFSource<{}>|open-{}", T::NAME, if archive { "archive" } else { "recording" }), format!("{e}"), replay);
            return;
        }
    };
    let dut = Dut { name: "SigMFSource".into(), params: json!({}), block: Box::new(src), ins: vec![], outs: vec![Box::new(CopyOut::new(o))], keeps_history: 0, cleanup: None };
    let mut srng = Rng::new(seed);
    match run_source(dut, &mut srng) {
        Err(e) => rep.violation(format!("C14|SigMFSource<{}>|run", T::NAME), e, replay),
        Ok(got) => {
            if got.first_diff(&T::wrap(data)).is_some() {
                rep.violation(format!("C14|SigMFSource<{}>|roundtrip-{}", T::NAME, if archive { "archive" } else { "recording" }), format!("read {} samples, recording holds {n}", got.len()), replay);
            }
        }
    }
}

fn au_roundtrip(rng: &mut Rng, rep: &mut Report) {
    let stream = rec::PAGE * *rng.pick(&[1usize, 1, 2]);
    let n = gen_len(rng, stream / 4);
    let mut data = gen_f32(rng, n);
    for x in data.iter_mut() {
        match rng.below(30) {
            0 => *x = 1.0,
            1 => *x = -1.0,
            2 => *x *= 2.5,
            3 => *x = 0.0,
            _ => {}
        }
    }
    let seed = rng.next();
    let replay = json!({"part": "au", "n": n, "stream_bytes": stream, "seed": seed.to_string()});
    rep.count("au_roundtrips", 1);
    let mut srng = Rng::new(seed);
    // encode
    rec::stream_size(stream);
    let (inp, r) = CopyIn::new(data.clone());
    let (enc, o) = AuEncode::new(r, rustradio::au::Encoding::Pcm16, 44100, 1);
    rec::stream_size(0);
    let dut = Dut { name: "AuEncode".into(), params: json!({}), block: Box::new(enc), ins: vec![Box::new(inp)], outs: vec![Box::new(CopyOut::new(o))], keeps_history: 0, cleanup: None };
    let mut run = Runner::new(dut);
    let mut steps = Vec::new();
    run_schedule(&mut run, &mut srng, &mut |_, _, _| {}, &mut |_| {}, &mut steps);
    if run.dead {
        rep.violation("C14|AuEncode|died", format!("{:?}", run.last_calls.last().and_then(|c| c.msg.clone())), replay);
        return;
    }
    let Data::U8(bytes) = run.outputs().pop().unwrap() else { return };
    drop(run);
    rep.count("bytes_moved", bytes.len() as u64);
    // decode
    rec::stream_size(stream);
    let (inp, r) = CopyIn::new(bytes);
    let (dec, o) = AuDecode::new(r, 44100);
    rec::stream_size(0);
    let dut = Dut { name: "AuDecode".into(), params: json!({}), block: Box::new(dec), ins: vec![Box::new(inp)], outs: vec![Box::new(CopyOut::new(o))], keeps_history: 0, cleanup: None };
    let mut run = Runner::new(dut);
    let mut steps = Vec::new();
    run_schedule(&mut run, &mut srng, &mut |_, _, _| {}, &mut |_| {}, &mut steps);
    if run.dead {
        rep.violation("C14|AuDecode|died", format!("{:?}", run.last_calls.last().and_then(|c| c.msg.clone())), replay);
        return;
    }
    let Data::F32(got) = run.outputs().pop().unwrap() else { return };
    let want: Vec<f32> = data.iter().map(|x| ((x * 32767.0).clamp(-32768.0, 32767.0) as i16) as f32 / 32767.0).collect();
    if got.len() != want.len() {
        rep.violation("C14|Au|sample-count", format!("decoded {} samples from {} encoded", got.len(), want.len()), replay);
    } else if let Some(i) = (0..got.len()).find(|&i| got[i].to_bits() != want[i].to_bits()) {
        rep.violation("C14|Au|quantisation", format!("sample {i}: decoded {} expected trunc(clamp(x*32767))/32767 = {} (x = {})", got[i], want[i], data[i]), replay);
    }
}

/// PduWriter: every PDU becomes one file holding its serialised samples.
fn pdu_writer_roundtrip(rng: &mut Rng, rep: &mut Report) {
    use rustradio::block::Block;
    let n = rng.range(0, 12);
    let pdus: Vec<Vec<f32>> = (0..n).map(|_| { let l = rng.range(0, 300); (0..l).map(|_| <f32 as Ty>::from_bits(rng)).collect() }).collect();
    let dir = tempfile::tempdir().expect("tempdir");
    let (w, r) = rustradio::stream::new_nocopy_stream::<Vec<f32>>();
    let mut b = PduWriter::new(r, dir.path());
    rep.count("pdu_writer_runs", 1);
    let replay = json!({"part": "pdu-writer", "pdus": n});
    for p in &pdus {
        w.push(p.clone(), &[]);
        if let Err(e) = catch(|| b.work().map(|_| ())) {
            rep.violation("C14|PduWriter|panic", e, replay);
            return;
        }
    }
    let mut files: Vec<(u128, Vec<u8>)> = std::fs::read_dir(dir.path())
        .unwrap()
        .filter_map(|e| e.ok())
        .filter_map(|e| Some((e.file_name().to_str()?.parse::<u128>().ok()?, std::fs::read(e.path()).ok()?)))
        .collect();
    files.sort_by_key(|f| f.0);
    let want: Vec<Vec<u8>> = pdus.iter().map(|p| serialize_all(p)).collect();
    let got: Vec<Vec<u8>> = files.into_iter().map(|f| f.1).collect();
    rep.count("bytes_moved", want.iter().map(|w| w.len() as u64).sum());
    if got != want {
        rep.violation("C14|PduWriter|files-differ-from-pdus", format!("{} PDUs written, {} files found, contents equal: {}", want.len(), got.len(), got.iter().zip(&want).all(|(a, b)| a == b)), replay);
    }
}

fn mkfifo(path: &std::path::Path) -> bool {
    let c = std::ffi::CString::new(path.to_str().unwrap()).unwrap();
    // SAFETY: plain libc call with a valid C string.
    unsafe { libc::mkfifo(c.as_ptr(), 0o600) == 0 }
}

/// Split the byte stream into read() results of chosen sizes.
fn gen_splits(rng: &mut Rng, total: usize, size: usize) -> Vec<usize> {
    let mut v = Vec::new();
    let mut left = total;
    let style = rng.below(5);
    while left > 0 {
        let k = match style {
            0 => 1,
            1 => size.saturating_sub(1).max(1),
            2 => size + 1,
            3 => rng.range(1, 3),
            _ => rng.range(1, 64),
        }
        .min(left);
        v.push(k);
        left -= k;
    }
    v
}

fn fifo_segmentation<T: Ty>(rng: &mut Rng, rep: &mut Report) {
    let n = rng.range(0, 600);
    let data: Vec<T> = (0..n).map(|_| T::from_bits(rng)).collect();
    let mut bytes = serialize_all(&data);
    let dangling = if T::size() > 1 && rng.chance(1, 3) { rng.range(1, T::size() - 1) } else { 0 };
    bytes.extend(gen_bytes(rng, dangling));
    let splits = gen_splits(rng, bytes.len(), T::size());
    let replay = json!({"part": "fifo", "type": T::NAME, "n": n, "dangling_bytes": dangling, "splits_head": splits.iter().take(12).collect::<Vec<_>>()});
    rep.count("fifo_runs", 1);
    rep.count("read_segments", splits.len() as u64);
    rep.count("bytes_moved", bytes.len() as u64);
    let dir = tempfile::tempdir().expect("tempdir");
    let path = dir.path().join("fifo");
    if !mkfifo(&path) {
        rep.inconclusive("mkfifo failed");
        return;
    }
    // Open read+write so that neither open() blocks and the reader never sees EOF early.
    let mut wr = std::fs::OpenOptions::new().read(true).write(true).open(&path).expect("open fifo");
    rec::stream_size(8 * rec::PAGE);
    let built = FileSource::<T>::new(&path);
    rec::stream_size(0);
    let (mut src, o) = match built {
        Ok(x) => x,
        Err(e) => {
            rep.inconclusive(format!("FileSource on fifo: {e}"));
            return;
        }
    };
    let mut got: Vec<T> = Vec::new();
    let mut pos = 0;
    use rustradio::block::Block;
    for k in &splits {
        wr.write_all(&bytes[pos..pos + k]).unwrap();
        wr.flush().unwrap();
        pos += k;
        // exactly one work() per write: the pipe is never empty when the block reads
        match catch(|| src.work().map(|_| ())) {
            Ok(Ok(())) => {}
            Ok(Err(e)) => {
                rep.violation(format!("C14|FileSource<{}>|error-on-split-read", T::NAME), format!("{e}"), replay);
                return;
            }
            Err(p) => {
                rep.violation(format!("C14|FileSource<{}>|panic-on-split-read|{}", T::NAME, sig_of_msg(&p)), p, replay);
                return;
            }
        }
        let (rb, _) = o.read_buf().unwrap();
        got.extend_from_slice(rb.slice());
        let l = rb.len();
        rb.consume(l);
    }
    let want = &data[..];
    if got.len() != want.len() || got.iter().zip(want).any(|(a, b)| !T::bits_eq(a, b)) {
        rep.violation(format!("C14|FileSource<{}>|segmented-read-reassembly", T::NAME), format!("{} samples out, {} whole samples in the byte stream ({} split reads)", got.len(), want.len(), splits.len()), replay);
    }
}

/// A FIFO whose writer opens late and pauses between writes: the source has to
/// wait for data (its read blocks) instead of treating "nothing there right
/// now" as end of file or as an error.
fn fifo_paced_writer<T: Ty>(rng: &mut Rng, rep: &mut Report) {
    use rustradio::block::Block;
    let n = rng.range(1, 400);
    let data: Vec<T> = (0..n).map(|_| T::from_bits(rng)).collect();
    let bytes = serialize_all(&data);
    let splits = gen_splits(rng, bytes.len(), T::size());
    let replay = json!({"part": "fifo-paced-writer", "type": T::NAME, "n": n, "splits_head": splits.iter().take(12).collect::<Vec<_>>()});
    rep.count("fifo_paced_writer_runs", 1);
    let dir = tempfile::tempdir().expect("tempdir");
    let path = dir.path().join("fifo");
    if !mkfifo(&path) {
        rep.inconclusive("mkfifo failed");
        return;
    }
    let wpath = path.clone();
    let wbytes = bytes.clone();
    let wsplits = splits.clone();
    let writer = std::thread::spawn(move || {
        std::thread::sleep(std::time::Duration::from_millis(30));
        // Open without blocking (ENXIO while nobody reads) and retry for 2 s: a reader
        // that has already given up must not leave this thread stuck in open().
        use std::os::unix::fs::OpenOptionsExt;
        use std::os::fd::AsRawFd;
        let t0 = std::time::Instant::now();
        let mut f = loop {
            match std::fs::OpenOptions::new().write(true).custom_flags(libc::O_NONBLOCK).open(&wpath) {
                Ok(f) => break f,
                Err(_) if t0.elapsed() < std::time::Duration::from_secs(2) => std::thread::sleep(std::time::Duration::from_millis(2)),
                Err(_) => return,
            }
        };
        // blocking writes from here on
        unsafe {
            let fl = libc::fcntl(f.as_raw_fd(), libc::F_GETFL);
            libc::fcntl(f.as_raw_fd(), libc::F_SETFL, fl & !libc::O_NONBLOCK);
        }
        let mut pos = 0;
        for (i, k) in wsplits.iter().enumerate() {
            if i % 3 == 0 {
                std::thread::sleep(std::time::Duration::from_millis(2));
            }
            if f.write_all(&wbytes[pos..pos + k]).is_err() {
                return; // the reader went away (reported by the reader's side)
            }
            pos += k;
        }
        // dropping `f` closes the FIFO: end of file for the reader
    });
    rec::stream_size(8 * rec::PAGE);
    let built = FileSource::<T>::new(&path); // blocks until the writer has opened
    rec::stream_size(0);
    let mut got: Vec<T> = Vec::new();
    let mut outcome: Result<(), String> = Ok(());
    match built {
        Err(e) => outcome = Err(format!("FileSource::new on the fifo: {e}")),
        Ok((mut src, o)) => {
            for _ in 0..200_000 {
                match catch(|| src.work().map(|r| matches!(r, rustradio::block::BlockRet::EOF))) {
                    Ok(Ok(eof)) => {
                        let (rb, _) = o.read_buf().unwrap();
                        got.extend_from_slice(rb.slice());
                        let l = rb.len();
                        rb.consume(l);
                        if eof {
                            break;
                        }
                    }
                    Ok(Err(e)) => {
                        outcome = Err(format!("work() returned an error while the writer was pausing: {e}"));
                        break;
                    }
                    Err(p) => {
                        outcome = Err(format!("work() panicked: {p}"));
                        break;
                    }
                }
            }
        }
    }
    let _ = writer.join();
    match outcome {
        Err(e) => rep.violation(format!("C14|FileSource<{}>|fifo-paced-writer|error", T::NAME), e, replay),
        Ok(()) => {
            if got.len() != data.len() || got.iter().zip(&data).any(|(a, b)| !T::bits_eq(a, b)) {
                rep.violation(format!("C14|FileSource<{}>|fifo-paced-writer|content", T::NAME), format!("{} samples out, {} written by a writer that opened 30 ms late and paused between writes", got.len(), data.len()), replay);
            }
        }
    }
}

fn tcp_segmentation<T: Ty>(rng: &mut Rng, rep: &mut Report) {
    use rustradio::block::Block;
    let full_output = rng.chance(1, 4);
    let cap = rec::PAGE / std::mem::size_of::<T>();
    // with `full_output` the output is not drained until it has filled up once
    let n = if full_output { cap + rng.range(1, 40) } else { rng.range(1, 600) };
    let data: Vec<T> = (0..n).map(|_| T::from_bits(rng)).collect();
    let bytes = serialize_all(&data);
    // `one_slot`: the output is held until one slot is free, and exactly then a
    // read ends inside a sample (the partial sample is pending with one slot left).
    let one_slot = full_output && T::size() > 1 && rng.chance(1, 2);
    let chunks = |len: usize| -> Vec<usize> {
        let mut v = vec![64usize; len / 64];
        if len % 64 > 0 {
            v.push(len % 64);
        }
        v
    };
    let splits = if one_slot {
        let head = (cap - 1) * T::size();
        let mut v = chunks(head);
        v.push(T::size() - 1);
        v.extend(chunks(bytes.len() - head - (T::size() - 1)));
        rep.count("tcp_runs_partial_sample_with_one_output_slot_left", 1);
        v
    } else if full_output {
        chunks(bytes.len())
    } else {
        gen_splits(rng, bytes.len(), T::size())
    };
    let mut hold_output = full_output;
    let replay = json!({"part": "tcp", "type": T::NAME, "n": n, "output_left_full_once": full_output, "splits_head": splits.iter().take(12).collect::<Vec<_>>()});
    rep.count("tcp_runs", 1);
    rep.count("read_segments", splits.len() as u64);
    rep.count("bytes_moved", bytes.len() as u64);
    let listener = match std::net::TcpListener::bind("127.0.0.1:0") {
        Ok(l) => l,
        Err(e) => {
            rep.inconclusive(format!("cannot bind loopback: {e}"));
            return;
        }
    };
    let port = listener.local_addr().unwrap().port();
    rec::stream_size(rec::PAGE);
    let built = TcpSource::<T>::new("127.0.0.1", port);
    rec::stream_size(0);
    let (mut src, o) = match built {
        Ok(x) => x,
        Err(e) => {
            rep.inconclusive(format!("TcpSource connect: {e}"));
            return;
        }
    };
    let (mut conn, _) = listener.accept().unwrap();
    conn.set_nodelay(true).ok();
    let mut got: Vec<T> = Vec::new();
    let mut pos = 0;
    let mut eof_early = false;
    for (idx, k) in splits.iter().enumerate() {
        conn.write_all(&bytes[pos..pos + k]).unwrap();
        conn.flush().unwrap();
        pos += k;
        // let the segment arrive
        std::thread::sleep(std::time::Duration::from_micros(300));
        match catch(|| src.work().map(|r| matches!(r, rustradio::block::BlockRet::EOF))) {
            Ok(Ok(eof)) => {
                if eof {
                    eof_early = true;
                }
            }
            Ok(Err(e)) => {
                rep.violation(format!("C14|TcpSource<{}>|error-on-split-read", T::NAME), format!("{e}"), replay);
                return;
            }
            Err(p) => {
                rep.violation(format!("C14|TcpSource<{}>|panic-on-split-read|{}", T::NAME, sig_of_msg(&p)), format!("{p}; split {idx} of {k} bytes"), replay);
                return;
            }
        }
        if eof_early {
            rep.violation(format!("C14|TcpSource<{}>|eof-while-connection-open", T::NAME), format!("work() returned EOF after {} of {} bytes although the connection is open", pos, bytes.len()), replay);
            return;
        }
        let (rb, _) = o.read_buf().unwrap();
        if hold_output && rb.len() < cap {
            continue; // leave the output filling up
        }
        if hold_output {
            // output is full now: one more call must wait, not end the stream
            hold_output = false;
            drop(rb);
            rep.count("tcp_calls_with_full_output", 1);
            match catch(|| src.work().map(|r| matches!(r, rustradio::block::BlockRet::EOF))) {
                Ok(Ok(true)) => {
                    rep.violation(format!("C14|TcpSource<{}>|eof-while-connection-open", T::NAME), "work() returned EOF with the output stream full and the connection open".to_string(), replay);
                    return;
                }
                Ok(_) => {}
                Err(p) => {
                    rep.violation(format!("C14|TcpSource<{}>|panic-with-full-output", T::NAME), p, replay);
                    return;
                }
            }
            let (rb, _) = o.read_buf().unwrap();
            got.extend_from_slice(rb.slice());
            let l = rb.len();
            rb.consume(l);
            continue;
        }
        got.extend_from_slice(rb.slice());
        let l = rb.len();
        rb.consume(l);
    }
    // Pump what is still in the socket (reads are limited by free output space).
    // Safe against blocking: a call is made only while at least one whole
    // sample's worth of written bytes has not come out yet.
    // Everything has been written: close our sending side, so that a source that
    // has lost count of the bytes sees end-of-stream instead of blocking in read().
    let _ = conn.shutdown(std::net::Shutdown::Write);
    for _ in 0..100_000 {
        let in_stream = o.read_buf().unwrap().0.len();
        if bytes.len() < (got.len() + in_stream + 1) * T::size() {
            break;
        }
        let (rb, _) = o.read_buf().unwrap();
        got.extend_from_slice(rb.slice());
        let l = rb.len();
        rb.consume(l);
        match catch(|| src.work().map(|r| matches!(r, rustradio::block::BlockRet::EOF))) {
            Ok(Ok(false)) => {}
            Ok(Ok(true)) => break,
            other => {
                rep.violation(format!("C14|TcpSource<{}>|error-on-split-read", T::NAME), format!("{other:?}"), replay);
                return;
            }
        }
    }
    let (rb, _) = o.read_buf().unwrap();
    got.extend_from_slice(rb.slice());
    let l = rb.len();
    rb.consume(l);
    drop(conn);
    if got.len() != data.len() || got.iter().zip(&data).any(|(a, b)| !T::bits_eq(a, b)) {
        rep.violation(format!("C14|TcpSource<{}>|segmented-read-reassembly", T::NAME), format!("{} samples out, {} in ({} split reads)", got.len(), data.len(), splits.len()), replay);
    }
}

pub fn main(opts: &Opts) -> Report {
    let mut rep = Report::new("C14");
    rep.rule = "Sample::serialize/parse/size on boundary and random bit patterns (incl. NaN payloads) for u8,u32,i32,f32,Complex; FileSink->file->FileSource on temp files under drip-feed schedules (0..3 capacities, 1-2 page streams); SigMF recordings and tar archives (members in 6 orders, unrelated members) for u8,f32,Complex; AuEncode->AuDecode = PCM16 quantisation with exact count; FileSource on a FIFO (also with a writer that opens late and pauses between writes) and TcpSource on a loop-back socket with the harness choosing the size of every read() result (1 byte, sample-1, sample+1, 1..3, 1..64; splits inside samples); distinct = (part, type, length, split style)".into();
    rep.assume("FIFO/TCP segmentation is deterministic because the harness writes k bytes and then calls work() exactly once");
    rec::install(true);
    let mut rng = Rng::new(opts.shard_seed() ^ 0xC14);
    // 1. samples
    let nrand = opts.budget(16 * 20_000, 16 * 1_000_000) as usize;
    {
        let mut v: Vec<u8> = <u8 as Ty>::boundaries();
        v.extend((0..=255u8).collect::<Vec<_>>());
        sample_roundtrip::<u8>("u8", &v, &mut rep);
        let mut v: Vec<u32> = vec![0, 1, u32::MAX, 0x8000_0000, 0x7fff_ffff];
        v.extend((0..nrand).map(|_| rng.next() as u32));
        sample_roundtrip::<u32>("u32", &v, &mut rep);
        let mut v: Vec<i32> = vec![0, 1, -1, i32::MIN, i32::MAX];
        v.extend((0..nrand).map(|_| rng.next() as i32));
        sample_roundtrip::<i32>("i32", &v, &mut rep);
        let mut v = <f32 as Ty>::boundaries();
        v.extend((0..nrand).map(|_| <f32 as Ty>::from_bits(&mut rng)));
        sample_roundtrip::<Float>("f32", &v, &mut rep);
        let mut v = <Complex as Ty>::boundaries();
        v.extend((0..nrand).map(|_| <Complex as Ty>::from_bits(&mut rng)));
        sample_roundtrip::<Complex>("Complex", &v, &mut rep);
        rep.eval();
    }
    let rounds = opts.budget(16 * 80, 16 * 3000);
    for k in 0..rounds {
        let h = rng.next();
        let mut r = Rng::new(h);
        rep.eval();
        rep.distinct(h);
        if rep.want_sample() {
            rep.sample(json!({"round_seed": h.to_string(), "parts": ["file u8/f32/Complex", "sigmf u8/f32/Complex", "au", "fifo", "tcp"]}));
        }
        if k % 8 == 0 {
            fifo_paced_writer::<f32>(&mut r, &mut rep);
        } else if k % 8 == 4 {
            fifo_paced_writer::<Complex>(&mut r, &mut rep);
        }
        match k % 3 {
            0 => {
                file_roundtrip::<u8>(&mut r, &mut rep);
                sigmf_roundtrip::<f32>(&mut r, &mut rep);
                fifo_segmentation::<Complex>(&mut r, &mut rep);
                tcp_segmentation::<f32>(&mut r, &mut rep);
            }
            1 => {
                file_roundtrip::<f32>(&mut r, &mut rep);
                sigmf_roundtrip::<Complex>(&mut r, &mut rep);
                fifo_segmentation::<u8>(&mut r, &mut rep);
                tcp_segmentation::<Complex>(&mut r, &mut rep);
            }
            _ => {
                file_roundtrip::<Complex>(&mut r, &mut rep);
                sigmf_roundtrip::<u8>(&mut r, &mut rep);
                fifo_segmentation::<f32>(&mut r, &mut rep);
                tcp_segmentation::<u8>(&mut r, &mut rep);
            }
        }
        au_roundtrip(&mut r, &mut rep);
        pdu_writer_roundtrip(&mut r, &mut rep);
    }
    let _ = opts;
    rep
}
