//! Independent HDLC / AX.25 transmitter model and reference deframer,
//! written from the protocol description (flags 0x7E, LSB-first bytes,
//! CRC-16/X.25 bitwise, zero insertion after five ones).

/// Bitwise CRC-16/X.25 (poly 0x1021 reflected = 0x8408, init 0xFFFF, xorout 0xFFFF).
pub fn crc16_x25(data: &[u8]) -> u16 {
    let mut crc: u16 = 0xffff;
    for b in data {
        let mut byte = *b;
        for _ in 0..8 {
            let bit = (crc ^ byte as u16) & 1;
            crc >>= 1;
            if bit == 1 {
                crc ^= 0x8408;
            }
            byte >>= 1;
        }
    }
    crc ^ 0xffff
}

pub const FLAG: [u8; 8] = [0, 1, 1, 1, 1, 1, 1, 0];

pub fn bytes_to_bits_lsb(bytes: &[u8]) -> Vec<u8> {
    let mut v = Vec::with_capacity(bytes.len() * 8);
    for b in bytes {
        for i in 0..8 {
            v.push((b >> i) & 1);
        }
    }
    v
}

pub fn stuff(bits: &[u8]) -> Vec<u8> {
    let mut out = Vec::with_capacity(bits.len() + bits.len() / 5);
    let mut ones = 0;
    for b in bits {
        out.push(*b);
        if *b == 1 {
            ones += 1;
            if ones == 5 {
                out.push(0);
                ones = 0;
            }
        } else {
            ones = 0;
        }
    }
    out
}

/// Frame content bits (stuffed), without flags.
pub fn body_bits(payload: &[u8], with_crc: bool) -> Vec<u8> {
    let mut bytes = payload.to_vec();
    if with_crc {
        let c = crc16_x25(payload);
        bytes.extend(c.to_le_bytes());
    }
    stuff(&bytes_to_bits_lsb(&bytes))
}

/// `nflags` opening flags, the stuffed frame, one closing flag.
pub fn frame_bits(payload: &[u8], nflags: usize, with_crc: bool) -> Vec<u8> {
    let mut v = Vec::new();
    for _ in 0..nflags {
        v.extend(FLAG);
    }
    v.extend(body_bits(payload, with_crc));
    v.extend(FLAG);
    v
}

/// Reference deframer: returns every raw frame (bytes between flags after
/// unstuffing, whole bytes only) found in the bit stream, with the bit index
/// of the closing flag's last bit. Aborts (7+ ones) drop the frame.
pub fn reference_deframe(bits: &[u8]) -> Vec<(Vec<u8>, usize)> {
    let mut out = Vec::new();
    let mut sr: u8 = 0; // last 8 bits, newest at bit 7
    let mut in_frame = false;
    let mut cur: Vec<u8> = Vec::new(); // raw (stuffed) bits since the last flag
    let mut seen = 0usize;
    for (i, b) in bits.iter().enumerate() {
        sr = (sr >> 1) | (b << 7);
        seen += 1;
        if in_frame {
            cur.push(*b);
        }
        if seen >= 8 && sr == 0x7e {
            if in_frame && cur.len() >= 8 {
                // drop the flag bits, unstuff
                let body = &cur[..cur.len() - 8];
                if let Some(bytes) = unstuff_to_bytes(body) {
                    if !bytes.is_empty() {
                        out.push((bytes, i));
                    }
                }
            }
            in_frame = true;
            cur.clear();
        }
    }
    out
}

fn unstuff_to_bytes(bits: &[u8]) -> Option<Vec<u8>> {
    let mut ones = 0;
    let mut data = Vec::new();
    let mut i = 0;
    while i < bits.len() {
        let b = bits[i];
        if ones == 5 {
            if b == 1 {
                return None; // abort / flag inside: not a clean frame
            }
            ones = 0;
            i += 1;
            continue;
        }
        data.push(b);
        if b == 1 {
            ones += 1;
        } else {
            ones = 0;
        }
        i += 1;
    }
    if data.len() % 8 != 0 {
        return None;
    }
    Some(
        data.chunks(8)
            .map(|c| c.iter().enumerate().fold(0u8, |a, (k, b)| a | (b << k)))
            .collect(),
    )
}

#[cfg(test)]
mod tests {
    use super::*;
    #[test]
    fn crc_check_value() {
        // CRC-16/X.25 check value for "123456789" is 0x906E.
        assert_eq!(crc16_x25(b"123456789"), 0x906e);
    }
    #[test]
    fn roundtrip() {
        let p = vec![0xff, 0x7e, 0x3f, 0x00, 0xaa];
        let bits = frame_bits(&p, 2, true);
        let f = reference_deframe(&bits);
        assert_eq!(f.len(), 1);
        let (bytes, _) = &f[0];
        assert_eq!(&bytes[..p.len()], &p[..]);
        assert_eq!(crc16_x25(&bytes[..p.len()]).to_le_bytes(), bytes[p.len()..]);
    }
}
