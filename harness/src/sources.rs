//! C16: finite sources emit their data exactly `repeat` times, then EOF.
use crate::drip::*;
use crate::rec;
use crate::util::*;
use rustradio::Repeat;
use rustradio::blocks::*;
use serde_json::{Value, json};

#[derive(Clone, Debug)]
pub struct Case {
    pub kind: String, // VectorSource | FileSource | SigMFSource(recording) | SigMFSource(archive)
    pub len: usize,
    pub repeat: i64, // -1 = infinite
    pub pages: usize,
    pub seed: u64,
}
impl Case {
    fn to_json(&self) -> Value {
        json!({"kind": self.kind, "len": self.len, "repeat": self.repeat, "pages": self.pages, "case_seed": self.seed.to_string()})
    }
    fn from_json(v: &Value) -> Option<Case> {
        Some(Case {
            kind: v["kind"].as_str()?.into(),
            len: v["len"].as_u64()? as usize,
            repeat: v["repeat"].as_i64()?,
            pages: v["pages"].as_u64()? as usize,
            seed: v["case_seed"].as_str()?.parse().ok()?,
        })
    }
}

fn tar_pad(v: &mut Vec<u8>) {
    while v.len() % 512 != 0 {
        v.push(0);
    }
}
pub fn tar_plain_member(name: &str, content: &[u8]) -> Vec<u8> {
    let mut h = tar::Header::new_ustar();
    h.set_path(name).unwrap();
    h.set_size(content.len() as u64);
    h.set_mode(0o644);
    h.set_entry_type(tar::EntryType::Regular);
    h.set_cksum();
    let mut out = h.as_bytes().to_vec();
    out.extend_from_slice(content);
    tar_pad(&mut out);
    out
}
/// A regular member whose size is carried by a pax extended header ("NN size=N\n").
pub fn tar_pax_sized_member(name: &str, content: &[u8]) -> Vec<u8> {
    let rec = format!(" size={}\n", content.len());
    let mut l = rec.len() + 1;
    let body = loop {
        let s = format!("{l}{rec}");
        if s.len() == l {
            break s;
        }
        l = s.len();
    };
    let mut x = tar::Header::new_ustar();
    x.set_path(format!("PaxHeaders.0/{name}")).unwrap();
    x.set_size(body.len() as u64);
    x.set_mode(0o644);
    x.set_entry_type(tar::EntryType::XHeader);
    x.set_cksum();
    let mut out = x.as_bytes().to_vec();
    out.extend_from_slice(body.as_bytes());
    tar_pad(&mut out);
    let mut h = tar::Header::new_ustar();
    h.set_path(name).unwrap();
    h.set_size(0);
    h.set_mode(0o644);
    h.set_entry_type(tar::EntryType::Regular);
    h.set_cksum();
    out.extend_from_slice(h.as_bytes());
    out.extend_from_slice(content);
    tar_pad(&mut out);
    out
}

fn mk_repeat(r: i64) -> Repeat {
    if r < 0 { Repeat::infinite() } else { Repeat::finite(r as u64) }
}

fn build(c: &Case, dir: &std::path::Path) -> Result<Dut, String> {
    let data: Vec<u32> = (0..c.len as u32).map(|i| i.wrapping_mul(2654435761).wrapping_add(c.seed as u32)).collect();
    let bytes: Vec<u8> = data.iter().flat_map(|x| x.to_le_bytes()).collect();
    rec::stream_size(c.pages * rec::PAGE);
    let r = (|| -> Result<Dut, String> {
        match c.kind.as_str() {
            "VectorSource" => {
                let (b, o) = VectorSourceBuilder::new(data.clone()).repeat(mk_repeat(c.repeat)).build();
                Ok(Dut { name: c.kind.clone(), params: json!({}), block: Box::new(b), ins: vec![], outs: vec![Box::new(CopyOut::new(o))], keeps_history: 0, cleanup: None })
            }
            "FileSource" => {
                let p = dir.join("data.bin");
                std::fs::write(&p, &bytes).map_err(|e| e.to_string())?;
                let (mut b, o) = FileSource::<u32>::new(&p).map_err(|e| e.to_string())?;
                b.repeat(mk_repeat(c.repeat));
                Ok(Dut { name: c.kind.clone(), params: json!({}), block: Box::new(b), ins: vec![], outs: vec![Box::new(CopyOut::new(o))], keeps_history: 0, cleanup: None })
            }
            _ => {
                // SigMF has no u32 type: use f32 with the same bit patterns (finite values only matter bitwise)
                let meta = "{\"global\":{\"core:datatype\":\"rf32_le\",\"core:version\":\"1.1.0\"},\"captures\":[{\"core:sample_start\":0}],\"annotations\":[]}";
                let path = if c.kind.contains("archive") && c.seed % 5 == 2 {
                    // POSIX pax: the data member's size comes in an extended header record and the
                    // ustar size field is zero (what writers do for members the field cannot hold)
                    let p = dir.join("rec.sigmf");
                    let mut ar = tar_plain_member("c.sigmf-meta", meta.as_bytes());
                    ar.extend(tar_pax_sized_member("c.sigmf-data", &bytes));
                    ar.extend(std::iter::repeat(0u8).take(1024));
                    std::fs::write(&p, ar).map_err(|e| e.to_string())?;
                    p
                } else if c.kind.contains("archive") {
                    let p = dir.join("rec.sigmf");
                    let f = std::fs::File::create(&p).map_err(|e| e.to_string())?;
                    let mut tb = tar::Builder::new(f);
                    for (name, content) in [("c.sigmf-meta", meta.as_bytes().to_vec()), ("c.sigmf-data", bytes.clone())] {
                        let mut h = tar::Header::new_gnu();
                        h.set_size(content.len() as u64);
                        h.set_mode(0o644);
                        h.set_cksum();
                        tb.append_data(&mut h, name, &content[..]).map_err(|e| e.to_string())?;
                    }
                    tb.finish().map_err(|e| e.to_string())?;
                    p
                } else {
                    std::fs::write(dir.join("c.sigmf-meta"), meta).map_err(|e| e.to_string())?;
                    std::fs::write(dir.join("c.sigmf-data"), &bytes).map_err(|e| e.to_string())?;
                    dir.join("c.sigmf")
                };
                // The builder's setters may be called in any order; the recording carries no
                // sample rate of its own, so forcing one changes nothing about the content.
                let bld = SigMFSourceBuilder::<f32>::new(path);
                let bld = match c.seed % 6 {
                    0 => bld.repeat(mk_repeat(c.repeat)),
                    1 => bld.sample_rate(48000.0).repeat(mk_repeat(c.repeat)),
                    2 => bld.repeat(mk_repeat(c.repeat)).sample_rate(48000.0),
                    3 => bld.repeat(mk_repeat(c.repeat)).ignore_type_error(),
                    4 => bld.ignore_type_error().repeat(mk_repeat(c.repeat)).sample_rate(8000.0),
                    _ => bld.sample_rate(1.0).ignore_type_error().repeat(mk_repeat(c.repeat)),
                };
                let (b, o) = bld.build().map_err(|e| e.to_string())?;
                Ok(Dut { name: c.kind.clone(), params: json!({}), block: Box::new(b), ins: vec![], outs: vec![Box::new(CopyOut::new(o))], keeps_history: 0, cleanup: None })
            }
        }
    })();
    rec::stream_size(0);
    r
}

fn run_case(c: &Case, rep: &mut Report) -> Vec<(String, String)> {
    let mut out = Vec::new();
    let dir = tempfile::tempdir().expect("tempdir");
    let dut = match build(c, dir.path()) {
        Ok(d) => d,
        Err(e) => {
            out.push(("cannot-open".into(), e));
            return out;
        }
    };
    let want_one: Vec<u32> = (0..c.len as u32).map(|i| i.wrapping_mul(2654435761).wrapping_add(c.seed as u32)).collect();
    let total = if c.repeat < 0 { usize::MAX } else { c.len * c.repeat as usize };
    let is_f32 = c.kind.starts_with("SigMF");
    let mut r = Runner::new(dut);
    let mut rng = Rng::new(c.seed ^ 0xD1A);
    let mut eof_at: Option<usize> = None;
    let mut calls_since_last_emit_with_space = 0usize;
    let mut emitted = 0usize;
    let mut pieces_of_rep = std::collections::BTreeMap::<usize, usize>::new();
    let max_calls = if c.repeat < 0 { 3000 } else { 200_000 };
    let mut calls = 0;
    while calls < max_calls {
        calls += 1;
        // drain schedule
        match rng.below(6) {
            0 => {}
            1 => {
                r.drain(0, 1);
            }
            2 => {
                r.drain(0, rng.range(1, 100));
            }
            _ => {
                r.drain(0, usize::MAX / 4);
            }
        }
        let had_space = r.dut.outs[0].free() > 0;
        let cl = r.work();
        if r.dead {
            out.push((format!("died|{}", sig_of_msg(cl.msg.as_deref().unwrap_or(""))), format!("work() {:?}: {:?}", cl.verdict, cl.msg)));
            return out;
        }
        let n = cl.moved_out[0];
        if n > 0 && c.len > 0 {
            *pieces_of_rep.entry(emitted / c.len).or_insert(0) += 1;
        }
        emitted += n;
        if cl.verdict == Verdict::Eof {
            eof_at = Some(emitted);
            break;
        }
        if n > 0 {
            calls_since_last_emit_with_space = 0;
        } else if had_space {
            calls_since_last_emit_with_space += 1;
            if emitted >= total && calls_since_last_emit_with_space > 2 && c.repeat >= 0 {
                out.push(("eof-not-reported".into(), format!("everything ({total} samples) was emitted, output has space, but {calls_since_last_emit_with_space} further calls did not report EOF (last verdict {:?})", cl.verdict)));
                return out;
            }
            if calls_since_last_emit_with_space > 50 && c.len == 0 {
                break;
            }
            if calls_since_last_emit_with_space > 50 {
                out.push(("stalled".into(), format!("no output and no EOF in 50 calls with output space; emitted {emitted} of {total}")));
                return out;
            }
        }
    }
    r.drain(0, usize::MAX / 4);
    rep.count("work_calls", calls as u64);
    rep.count("repetitions_emitted_in_2plus_pieces", pieces_of_rep.values().filter(|&&p| p >= 2).count() as u64);
    let got = r.outputs().pop().unwrap();
    let got_bits: Vec<u32> = match &got {
        Data::U32(v) => v.clone(),
        Data::F32(v) => v.iter().map(|f| f.to_bits()).collect(),
        _ => vec![],
    };
    let _ = is_f32;
    if c.len == 0 {
        // Nothing to emit: EOF (what VectorSource documents) and "never EOF" are
        // both acceptable for an infinite repeat of nothing; only demand silence.
        if !got_bits.is_empty() {
            out.push(("emitted-from-empty-data".into(), format!("{} samples from empty data", got_bits.len())));
        }
        if c.repeat >= 0 && eof_at.is_none() {
            out.push(("eof-not-reported".into(), "empty data, finite repeat, no EOF".into()));
        }
    } else if c.repeat < 0 {
        if let Some(e) = eof_at {
            out.push(("infinite-repeat-reported-eof".into(), format!("EOF after {e} samples with infinite repeat")));
        }
        if c.len > 0 && got_bits.iter().enumerate().any(|(i, x)| *x != want_one[i % c.len]) {
            out.push(("output-differs".into(), "infinite repeat: output is not the data repeated".into()));
        }
        rep.count("infinite_runs_without_eof", 1);
    } else {
        match eof_at {
            None => out.push(("eof-not-reported".into(), format!("no EOF in {calls} calls; emitted {emitted} of {total}"))),
            Some(e) => {
                if e < total {
                    out.push(("eof-before-all-data".into(), format!("EOF reported after {e} of {total} samples")));
                }
            }
        }
        let want: Vec<u32> = (0..c.repeat as usize).flat_map(|_| want_one.iter().copied()).collect();
        if got_bits != want {
            let class = if got_bits.len() > want.len() { "emitted-more-than-repeat-times" } else if got_bits.len() < want.len() { "emitted-less-than-repeat-times" } else { "output-differs" };
            out.push((class.into(), format!("emitted {} samples, expected {} ({} x {})", got_bits.len(), want.len(), c.repeat, c.len)));
        }
    }
    // marker tags of VectorSource
    if c.kind == "VectorSource" && c.len > 0 {
        let tags = r.out_tags().pop().unwrap();
        let reps = if c.repeat < 0 { got_bits.len().div_ceil(c.len) } else { c.repeat as usize };
        let mut exp = Vec::new();
        for k in 0..reps {
            let pos = (k * c.len) as u64;
            if (pos as usize) < got_bits.len() {
                exp.push(OutTag { pos, key: "VectorSource::start".into(), val: "Bool(true)".into() });
                exp.push(OutTag { pos, key: "VectorSource::repeat".into(), val: format!("U64({k})") });
                if k == 0 {
                    exp.push(OutTag { pos, key: "VectorSource::first".into(), val: "Bool(true)".into() });
                }
            }
        }
        let mut g = tags.clone();
        g.sort();
        exp.sort();
        rep.count("marker_tags_checked", exp.len() as u64);
        if g != exp {
            out.push(("marker-tags".into(), format!("{} marker tags seen, {} expected; first seen {:?}", g.len(), exp.len(), g.iter().take(4).collect::<Vec<_>>())));
        }
    }
    out
}

/// Repeat API against a model of its documentation.
fn repeat_api(rng: &mut Rng, rep: &mut Report) {
    let n = rng.below(6) as i64 - 1; // -1 infinite, 0..4
    let mut r = mk_repeat(n);
    let mut remaining = n;
    let mut count = 0u64;
    let mut seq = Vec::new();
    for _ in 0..rng.range(1, 12) {
        let op = rng.below(3);
        seq.push(op);
        let replay = json!({"part": "repeat-api", "n": n, "ops": seq});
        rep.count("repeat_api_calls", 1);
        match op {
            0 => {
                let got = match catch(|| r.again()) {
                    Ok(g) => g,
                    Err(p) => {
                        rep.violation(format!("C16|Repeat|again-panics|{}", sig_of_msg(&p)), format!("Repeat::{}.again() panicked after ops {seq:?}: {p}", if n < 0 { "infinite()".into() } else { format!("finite({n})") }), replay);
                        return;
                    }
                };
                count += 1;
                let want = if n < 0 {
                    true
                } else {
                    remaining = std::cmp::max(0, remaining - 1);
                    remaining > 0
                };
                if got != want {
                    rep.violation("C16|Repeat|again-value", format!("again() = {got}, model {want} (n {n}, ops {seq:?})"), replay);
                    return;
                }
            }
            1 => {
                let want = n >= 0 && remaining == 0;
                if r.done() != want {
                    rep.violation("C16|Repeat|done-value", format!("done() = {}, model {want} (n {n}, ops {seq:?})", r.done()), replay);
                    return;
                }
            }
            _ => {
                if r.count() != count {
                    rep.violation("C16|Repeat|count-value", format!("count() = {}, model {count} (n {n}, ops {seq:?})", r.count()), replay);
                    return;
                }
            }
        }
    }
}

pub fn main(opts: &Opts) -> Report {
    let mut rep = Report::new("C16");
    rep.rule = "VectorSource, FileSource, SigMFSource (recording and archive) x data lengths 0..3 stream capacities x repeat in {0,1,2,3,infinite} x seeded drain schedules on 1-2 page streams: output must be the data repeated exactly r times, EOF never before everything is emitted and within 2 calls after (given output space), infinite repeat never EOF in 3000 calls, VectorSource marker tags once per repetition on its first sample; Repeat API: random call sequences of again/done/count on finite(0..4)/infinite against a model; distinct = (source, length class, repeat, pages)".into();
    rep.assume("EOF 'exactly when everything has been emitted' is judged as: not before, and within 2 further calls that had output space");
    rec::install(true);
    if let Some(path) = &opts.replay {
        let v: Value = serde_json::from_str(&std::fs::read_to_string(path).expect("replay file")).expect("json");
        if v["replay"]["part"] == "repeat-api" {
            let mut rng = Rng::new(1);
            for _ in 0..20000 {
                repeat_api(&mut rng, &mut rep);
            }
            rep.eval();
            return rep;
        }
        let c = Case::from_json(&v["replay"]).expect("case");
        rep.eval();
        for (class, d) in run_case(&c, &mut Report::new("C16")) {
            rep.violation(format!("C16|{}|repeat={}|{class}", c.kind, c.repeat), d, c.to_json());
        }
        return rep;
    }
    let mut rng = Rng::new(opts.shard_seed() ^ 0xC16);
    let n = opts.budget(16 * 800, 16 * 40000);
    let kinds = ["VectorSource", "FileSource", "SigMFSource(recording)", "SigMFSource(archive)"];
    for k in 0..n {
        let pages = if rng.chance(2, 3) { 1 } else { 2 };
        let cap = pages * rec::PAGE / 4;
        let len = match rng.below(8) {
            0 => 0,
            1 => 1,
            2 => cap,
            3 => cap + 1,
            4 => cap - 1,
            _ => rng.range(0, 3 * cap),
        };
        let c = Case {
            kind: kinds[(k % 4) as usize].into(),
            len,
            repeat: *rng.pick(&[0i64, 1, 1, 2, 3, -1]),
            pages,
            seed: rng.next(),
        };
        rep.eval();
        rep.count(&format!("cases:{}", c.kind), 1);
        let lc = if len == 0 { "0" } else if len < cap { "<cap" } else if len == cap { "=cap" } else { ">cap" };
        rep.distinct(fnv_str(&format!("{}|{lc}|{}|{pages}", c.kind, c.repeat)));
        rep.set("repeats", c.repeat.to_string());
        if rep.want_sample() {
            rep.sample(c.to_json());
        }
        match catch(|| run_case(&c, &mut rep)) {
            Ok(fs) => {
                for (class, d) in fs {
                    rep.violation(format!("C16|{}|repeat={}|{class}", c.kind, c.repeat), format!("{d}; case {}", c.to_json()), c.to_json());
                }
            }
            Err(p) => rep.inconclusive(format!("harness panic: {p}")),
        }
        for _ in 0..20 {
            repeat_api(&mut rng, &mut rep);
        }
    }
    rep
}
