//! C15: input content can never crash a block, decoder or parser.
//!
//! Every call runs inside catch_unwind; a work() that answers Again without
//! any stream event 64 times in a row is "spins forever". Err values are fine.
use crate::drip::*;
use crate::duts::{self, ENTRIES, SPECIALS, gen_bytes, special_f32};
use crate::rec;
use crate::util::*;
use rustradio::block::Block;
use rustradio::blocks::*;
use rustradio::stream::TagValue;
use serde_json::{Value, json};
use std::sync::atomic::Ordering;

/// Run a DUT under a seeded schedule; findings: panic / spin.
fn drive(dut: Dut, seed: u64, rep: &mut Report) -> Option<(String, String)> {
    let mut r = Runner::new(dut);
    let mut rng = Rng::new(seed);
    let mut spin: Option<String> = None;
    let mut steps = Vec::new();
    {
        let mut on_call = |r: &mut Runner, c: &Call, _rng: &mut Rng| {
            rep.count("work_calls", 1);
            if c.verdict == Verdict::Again && !c.moved_any() && spin.is_none() {
                let mut n = 0;
                while n < 64 && !r.dead {
                    let c2 = r.work();
                    if c2.verdict != Verdict::Again || c2.moved_any() {
                        break;
                    }
                    n += 1;
                }
                if n >= 64 {
                    spin = Some("work() answered Again 65 times in a row without any stream event".into());
                }
            }
        };
        run_schedule(&mut r, &mut rng, &mut on_call, &mut |_| {}, &mut steps);
    }
    if let Some(l) = r.last_calls.last() {
        if l.verdict == Verdict::Panic {
            return Some((format!("panic|{}", sig_of_msg(l.msg.as_deref().unwrap_or(""))), format!("work() panicked: {:?}; params {}; last calls {}", l.msg, r.dut.params, r.describe_last_calls())));
        }
    }
    spin.map(|s| ("spins-forever".to_string(), format!("{s}; params {}", r.dut.params)))
}

fn catalogue_with_specials(opts: &Opts, rep: &mut Report, rng: &mut Rng) {
    let per = opts.budget(16 * 60, 16 * 2500);
    SPECIALS.store(true, Ordering::SeqCst);
    for e in ENTRIES {
        for _ in 0..per {
            let seed = rng.next();
            let ctx = Ctx { stream_bytes: rec::PAGE * *rng.pick(&[1usize, 1, 2]), tagged: rng.chance(1, 3), max_len_pct: 150 };
            rep.eval();
            rep.distinct(hmix(fnv_str(e.name), seed));
            rep.count(&format!("inputs:{}", e.name), 1);
            rec::stream_size(ctx.stream_bytes);
            let built = match catch(|| (e.build)(&mut Rng::new(seed), &ctx)) {
                Ok(b) => b,
                Err(p) => {
                    rec::stream_size(0);
                    rep.inconclusive(format!("constructor of {} panicked in harness set-up: {p}", e.name));
                    continue;
                }
            };
            rec::stream_size(0);
            if let Some((class, d)) = drive(built.dut, seed ^ 1, rep) {
                rep.violation(format!("C15|{}|{class}", e.name), d, json!({"part": "catalogue", "entry": e.name, "case_seed": seed.to_string(), "stream_bytes": ctx.stream_bytes, "tagged": ctx.tagged}));
            }
        }
    }
    SPECIALS.store(false, Ordering::SeqCst);
}

fn dut_bytes_in<B: Block + 'static>(name: &str, b: B, inp: CopyIn<u8>, outs: Vec<Box<dyn OutPort>>) -> Dut {
    Dut { name: name.into(), params: json!({}), block: Box::new(b), ins: vec![Box::new(inp)], outs, keeps_history: 0, cleanup: None }
}

fn arbitrary_bytes(opts: &Opts, rep: &mut Report, rng: &mut Rng) {
    let n = opts.budget(16 * 300, 16 * 15000);
    for k in 0..n {
        let seed = rng.next();
        let mut r = Rng::new(seed);
        let len = r.range(0, 6000);
        let data = match r.below(4) {
            0 => gen_bytes(&mut r, len),
            1 => (0..len).map(|_| *r.pick(&[0u8, 1, 1, 1, 255, 2, 0x7e])).collect(),
            2 => vec![1u8; len],
            _ => duts::gen_bits(&mut r, len),
        };
        rep.eval();
        rep.distinct(hmix(k % 5, seed));
        let stream = rec::PAGE * *r.pick(&[1usize, 2]);
        rec::stream_size(stream);
        let (inp, rs) = CopyIn::new(data);
        let (name, dut) = match k % 5 {
            4 => {
                // a "bit" stream that is not made of 0s and 1s, with frame starts marked
                let (b, o) = Il2pDeframer::new(rs);
                let mut d = dut_bytes_in("Il2pDeframer", b, inp, vec![Box::new(PktOut::new(o))]);
                let mut tags = Vec::new();
                if len > 0 {
                    for _ in 0..r.range(0, 8) {
                        tags.push(InTag { pos: r.below(len), key: "sync".into(), val: TagValue::Bool(true) });
                    }
                }
                d.ins[0].set_tags(tags);
                ("Il2pDeframer(arbitrary bytes)", d)
            }
            0 => {
                let (mi, mx) = (*r.pick(&[0usize, 1, 2, 10]), *r.pick(&[0usize, 1, 5, 100, 1500]));
                let (mut b, o) = HdlcDeframer::new(rs, mi, mx);
                b.set_fix_bits(r.chance(1, 2));
                b.set_checksum(r.chance(2, 3));
                ("HdlcDeframer(arbitrary bytes)", dut_bytes_in("HdlcDeframer", b, inp, vec![Box::new(PktOut::new(o))]))
            }
            1 => {
                let (b, o) = RtlSdrDecode::new(rs);
                ("RtlSdrDecode", dut_bytes_in("RtlSdrDecode", b, inp, vec![Box::new(CopyOut::new(o))]))
            }
            2 => {
                // arbitrary bytes as an .au stream: must be Ok or Err
                let (b, o) = AuDecode::new(rs, 44100);
                ("AuDecode(arbitrary bytes)", dut_bytes_in("AuDecode", b, inp, vec![Box::new(CopyOut::new(o))]))
            }
            _ => {
                let (b, o) = StreamToPdu::new(rs, "burst", *r.pick(&[0usize, 1, 10, 1000]), r.range(0, 5));
                let mut d = dut_bytes_in("StreamToPdu", b, inp, vec![Box::new(PktOut::new(o))]);
                // arbitrary tag sequences: starts/ends in any order, duplicates, wrong value types
                let mut tags = Vec::new();
                if len > 0 {
                    for _ in 0..r.range(0, 60) {
                        let val = match r.below(4) {
                            0 => TagValue::Bool(true),
                            1 => TagValue::Bool(false),
                            2 => TagValue::U64(r.next()),
                            _ => TagValue::String("x".into()),
                        };
                        tags.push(InTag { pos: r.below(len), key: if r.chance(4, 5) { "burst".into() } else { "other".into() }, val });
                    }
                }
                d.ins[0].set_tags(tags);
                ("StreamToPdu(arbitrary tags)", d)
            }
        };
        rec::stream_size(0);
        rep.count(&format!("inputs:{name}"), 1);
        if let Some((class, d)) = drive(dut, seed ^ 2, rep) {
            rep.violation(format!("C15|{name}|{class}"), d, json!({"part": "bytes", "target": name, "case_seed": seed.to_string()}));
        }
    }
}

fn au_header(magic: u32, offset: u32, size: u32, enc: u32, rate: u32, ch: u32, extra: usize, cut: Option<usize>) -> Vec<u8> {
    let mut v = Vec::new();
    for x in [magic, offset, size, enc, rate, ch] {
        v.extend(x.to_be_bytes());
    }
    v.extend(vec![0u8; extra]);
    v.extend((0..64u8).collect::<Vec<_>>());
    if let Some(c) = cut {
        v.truncate(c);
    }
    v
}

fn au_headers(rep: &mut Report) {
    let mut cases: Vec<Vec<u8>> = Vec::new();
    let offsets: Vec<u32> = (0..=40).chain([1 << 31, u32::MAX, u32::MAX - 7, 1000, 4096, 4097]).collect();
    for off in &offsets {
        for enc in [0u32, 1, 2, 3, 4, 27, u32::MAX] {
            for rate in [0u32, 8000, 44100, u32::MAX] {
                for ch in [0u32, 1, 2, u32::MAX] {
                    cases.push(au_header(0x2e736e64, *off, u32::MAX, enc, rate, ch, 0, None));
                }
            }
        }
        cases.push(au_header(0x2e736e64, *off, 0, 3, 44100, 1, 16, None));
        cases.push(au_header(0, *off, 0, 3, 44100, 1, 0, None));
    }
    for cut in 0..=28 {
        cases.push(au_header(0x2e736e64, 24, u32::MAX, 3, 44100, 1, 4, Some(cut)));
        cases.push(au_header(0x2e736e64, 28, u32::MAX, 3, 44100, 1, 4, Some(cut)));
    }
    rep.set("exhaustive_families", format!("AU headers: {} offsets x 7 encodings x 4 rates x 4 channel counts, plus truncations 0..28", offsets.len()));
    for (i, bytes) in cases.iter().enumerate() {
        rep.eval();
        rep.distinct(fnv(bytes));
        rep.count("inputs:AuDecode(header mutations)", 1);
        for chunked in [false, true] {
            rec::stream_size(rec::PAGE);
            let (inp, rs) = CopyIn::new(bytes.clone());
            let (b, o) = AuDecode::new(rs, 44100);
            rec::stream_size(0);
            let dut = dut_bytes_in("AuDecode", b, inp, vec![Box::new(CopyOut::new(o))]);
            let f = if chunked {
                drive(dut, i as u64, rep)
            } else {
                let mut r = Runner::new(dut);
                r.finish(2000);
                r.last_calls.last().filter(|l| l.verdict == Verdict::Panic).map(|l| (format!("panic|{}", sig_of_msg(l.msg.as_deref().unwrap_or(""))), format!("{:?}", l.msg)))
            };
            if let Some((class, d)) = f {
                rep.violation(format!("C15|AuDecode(header mutations)|{class}"), format!("{d}; header bytes {:?}", &bytes[..std::cmp::min(bytes.len(), 24)]), json!({"part": "au-header", "index": i, "header": bytes[..std::cmp::min(bytes.len(), 28)].to_vec()}));
                break;
            }
        }
    }
}

fn sigmf_inputs(opts: &Opts, rep: &mut Report, rng: &mut Rng) {
    let metas: Vec<String> = vec![
        r#"{"global":{"core:datatype":"cf32_le","core:version":"1.1.0"},"captures":[],"annotations":[]}"#.into(),
        r#"{"global":{"core:datatype":123,"core:version":"1.1.0"},"captures":[],"annotations":[]}"#.into(),
        r#"{"global":{"core:version":"1.1.0"},"captures":[]}"#.into(),
        r#"{"global":{"core:datatype":"cf32_le","core:version":"1.1.0","core:sample_rate":1e400},"captures":[]}"#.into(),
        r#"{"global":{"core:datatype":"cf32_le","core:version":"1.1.0","core:sample_rate":-1},"captures":[{"core:sample_start":18446744073709551616}]}"#.into(),
        r#"{"global":{"core:datatype":"cf32_le","core:version":"1.1.0"},"captures":[{"core:sample_start":-5,"core:header_bytes":99999999999999999999}]}"#.into(),
        r#"{"global":[],"captures":{}}"#.into(),
        // free-form text where a fixed ASCII token is expected (multi-byte characters
        // at every offset from the end)
        "{\"global\":{\"core:datatype\":\"cf32\u{1F4E1}\",\"core:version\":\"1.1.0\"},\"captures\":[],\"annotations\":[]}".into(),
        "{\"global\":{\"core:datatype\":\"cf3\u{20AC}e\",\"core:version\":\"1.1.0\"},\"captures\":[],\"annotations\":[]}".into(),
        "{\"global\":{\"core:datatype\":\"cf32\u{E9}le\",\"core:version\":\"1.1.0\"},\"captures\":[],\"annotations\":[]}".into(),
        "{\"global\":{\"core:datatype\":\"\u{E9}\",\"core:version\":\"\u{1F4E1}\u{1F4E1}\"},\"captures\":[],\"annotations\":[]}".into(),
        "{\"global\":{\"core:datatype\":\"rf32_l\u{E9}\",\"core:version\":\"1.1.0\"},\"captures\":[{\"core:sample_start\":0}],\"annotations\":[]}".into(),
        r#"[]"#.into(),
        r#"{"#.into(),
        "".into(),
        "\u{0}\u{1}\u{2}".into(),
        r#"{"global":{"core:datatype":"cf32_le","core:version":"1.1.0","core:extensions":[{"name":1,"version":2,"optional":"x"}]},"captures":[],"annotations":[{"core:sample_start":0,"core:sample_count":-1}]}"#.into(),
        r#"{"global":{"core:datatype":"rf32_le","core:version":"1.1.0"},"captures":[{"core:sample_start":0}],"annotations":null}"#.into(),
    ];
    let good_meta = r#"{"global":{"core:datatype":"rf32_le","core:version":"1.1.0"},"captures":[{"core:sample_start":0}],"annotations":[]}"#;
    let n = opts.budget(16 * 120, 16 * 4000);
    for k in 0..n {
        let seed = rng.next();
        let mut r = Rng::new(seed);
        rep.eval();
        rep.distinct(hmix(k % 8 + 100, seed));
        let dir = tempfile::tempdir().expect("tempdir");
        let dlen = r.range(0, 3000);
        let data = gen_bytes(&mut r, dlen);
        let kind = k % 8;
        let path = match kind {
            0 => {
                // recording with hostile metadata
                let m = r.pick(&metas).clone();
                std::fs::write(dir.path().join("c.sigmf-meta"), m).unwrap();
                std::fs::write(dir.path().join("c.sigmf-data"), &data).unwrap();
                rep.count("inputs:SigMF(metadata)", 1);
                dir.path().join("c.sigmf")
            }
            _ => {
                // archives
                let p = dir.path().join("a.sigmf");
                let f = std::fs::File::create(&p).unwrap();
                let mut tb = tar::Builder::new(f);
                let mut add = |name: &[u8], content: &[u8], ty: tar::EntryType| {
                    let mut h = tar::Header::new_gnu();
                    h.set_size(content.len() as u64);
                    h.set_mode(0o644);
                    h.set_entry_type(ty);
                    // raw name bytes (may be non-UTF-8)
                    let gnu = h.as_gnu_mut().unwrap();
                    let l = std::cmp::min(name.len(), 99);
                    gnu.name[..l].copy_from_slice(&name[..l]);
                    h.set_cksum();
                    let _ = tb.append(&h, content);
                };
                let meta = if kind == 1 { r.pick(&metas).clone() } else { good_meta.to_string() };
                match kind {
                    1 => {
                        add(b"x.sigmf-meta", meta.as_bytes(), tar::EntryType::Regular);
                        add(b"x.sigmf-data", &data, tar::EntryType::Regular);
                    }
                    2 => {
                        add(b"x.sigmf-meta", meta.as_bytes(), tar::EntryType::Directory);
                        add(b"x.sigmf-data", &data, tar::EntryType::Symlink);
                    }
                    3 => {
                        add(b"x.sigmf-meta", meta.as_bytes(), tar::EntryType::Regular);
                        add(b"x.sigmf-data", &data, tar::EntryType::Regular);
                        add(b"x.sigmf-data", &data, tar::EntryType::Regular);
                        add(b"y.sigmf-meta", meta.as_bytes(), tar::EntryType::Regular);
                    }
                    4 => {
                        add(b"\xff\xfe\xfd.sigmf-meta", meta.as_bytes(), tar::EntryType::Regular);
                        add(b"\xff\xfe\xfd.sigmf-data", &data, tar::EntryType::Regular);
                    }
                    5 => {
                        add(b"x.sigmf-meta", meta.as_bytes(), tar::EntryType::Regular);
                        add(b"x.sigmf-data", &data, tar::EntryType::GNUSparse);
                    }
                    6 => {
                        add(b".sigmf-meta", meta.as_bytes(), tar::EntryType::Regular);
                        add(b"-data", &data, tar::EntryType::Regular);
                    }
                    _ => {
                        add(b"x.sigmf-meta", meta.as_bytes(), tar::EntryType::Regular);
                        add(b"x.sigmf-data", &data, tar::EntryType::Regular);
                    }
                }
                let _ = tb.finish();
                drop(tb);
                // truncate / corrupt the archive
                if kind == 7 || r.chance(1, 4) {
                    let mut bytes = std::fs::read(&p).unwrap();
                    match r.below(3) {
                        0 => {
                            let cut = r.below(bytes.len() + 1);
                            bytes.truncate(cut);
                        }
                        1 => {
                            for _ in 0..r.range(1, 20) {
                                if !bytes.is_empty() {
                                    let i = r.below(bytes.len());
                                    bytes[i] = r.next() as u8;
                                }
                            }
                        }
                        _ => {}
                    }
                    std::fs::write(&p, bytes).unwrap();
                }
                rep.count("inputs:SigMF(archive)", 1);
                p
            }
        };
        let replay = json!({"part": "sigmf", "kind": kind, "case_seed": seed.to_string()});
        rec::stream_size(rec::PAGE);
        // with and without the declared-type check (it parses the datatype string)
        let strict = (k / 8) % 2 == 0;
        rep.count(if strict { "sigmf_opened_with_type_check" } else { "sigmf_opened_ignoring_the_type" }, 1);
        let built = catch(|| {
            let b = SigMFSourceBuilder::<f32>::new(path.clone());
            if strict { b.build() } else { b.ignore_type_error().build() }
        });
        rec::stream_size(0);
        match built {
            Err(p) => rep.violation(format!("C15|SigMFSource(open)|panic|{}", sig_of_msg(&p)), format!("opening panicked: {p} (input kind {kind})"), replay),
            Ok(Err(_)) => rep.count("sigmf_rejected_with_error", 1),
            Ok(Ok((src, o))) => {
                rep.count("sigmf_accepted", 1);
                let dut = Dut { name: "SigMFSource".into(), params: json!({"kind": kind}), block: Box::new(src), ins: vec![], outs: vec![Box::new(CopyOut::new(o))], keeps_history: 0, cleanup: None };
                let mut run = Runner::new(dut);
                let mut quiet = 0;
                for _ in 0..2000 {
                    let c = run.work();
                    run.drain(0, usize::MAX / 4);
                    if run.dead || c.verdict == Verdict::Eof {
                        break;
                    }
                    // The output is always drained here: a call that neither moves
                    // data nor ends the stream has nothing to wait for.
                    if c.moved_any() {
                        quiet = 0;
                    } else {
                        quiet += 1;
                        if quiet >= 64 {
                            rep.violation("C15|SigMFSource(read)|spins-forever", format!("64 consecutive work() calls with an empty output stream moved nothing and did not end the stream (verdict {:?}); input kind {kind}", c.verdict), replay.clone());
                            break;
                        }
                    }
                }
                if let Some(l) = run.last_calls.last() {
                    if l.verdict == Verdict::Panic {
                        rep.violation(format!("C15|SigMFSource(read)|panic|{}", sig_of_msg(l.msg.as_deref().unwrap_or(""))), format!("work() panicked: {:?} (input kind {kind})", l.msg), replay);
                    }
                }
            }
        }
    }
}

/// All bursts of length 0..maxlen over a small alphabet through Midpointer and Wpcr.
fn bursts(opts: &Opts, rep: &mut Report) {
    let alphabet = [-1.0f32, 0.0, 1.0, f32::NAN, f32::INFINITY];
    let maxlen = if opts.thorough() { 8 } else { 6 };
    let mut all: Vec<Vec<f32>> = vec![vec![]];
    let mut frontier: Vec<Vec<f32>> = vec![vec![]];
    for _ in 0..maxlen {
        let mut next = Vec::new();
        for b in &frontier {
            for a in alphabet {
                let mut c = b.clone();
                c.push(a);
                next.push(c);
            }
        }
        all.extend(next.iter().cloned());
        frontier = next;
    }
    let mine: Vec<Vec<f32>> = all.into_iter().enumerate().filter(|(i, _)| i % opts.nshards == opts.shard).map(|(_, b)| b).collect();
    rep.set("exhaustive_families", format!("all bursts of length 0..{maxlen} over {{-1,0,1,NaN,+inf}} through Midpointer and Wpcr"));
    for which in ["Midpointer", "Wpcr"] {
        for chunk in mine.chunks(2000) {
            rep.eval();
            rep.count(&format!("inputs:{which}(bursts)"), chunk.len() as u64);
            let (w, r) = rustradio::stream::new_nocopy_stream::<Vec<f32>>();
            let mut blk: Box<dyn Block> = if which == "Midpointer" {
                let (b, o) = Midpointer::new(r);
                std::mem::forget(o);
                Box::new(b)
            } else {
                let (b, o) = Wpcr::new(r);
                std::mem::forget(o);
                Box::new(b)
            };
            for b in chunk {
                rep.distinct(hmix(fnv_str(which), fnv(crate::ring::as_bytes(&b[..]))));
                w.push(b.clone(), &[]);
                if let Err(p) = catch(|| blk.work().map(|_| ())) {
                    rep.violation(format!("C15|{which}(burst)|panic|{}", sig_of_msg(&p)), format!("burst {b:?}: {p}"), json!({"part": "burst", "block": which, "burst": b.iter().map(|x| format!("{x}")).collect::<Vec<_>>()}));
                    // the block may be unusable after a panic: rebuild by leaving the loop
                    break;
                }
            }
        }
    }
}

/// Constant and near-constant bursts of awkward values and lengths: the mean of n
/// copies of c is not always c in f32, and sums can overflow.
fn constant_bursts(opts: &Opts, rep: &mut Report, rng: &mut Rng) {
    let values = opts.budget(16 * 150, 16 * 5000);
    for which in ["Midpointer", "Wpcr"] {
        let (w, r) = rustradio::stream::new_nocopy_stream::<Vec<f32>>();
        let mut blk: Box<dyn Block> = if which == "Midpointer" {
            let (b, o) = Midpointer::new(r);
            std::mem::forget(o);
            Box::new(b)
        } else {
            let (b, o) = Wpcr::new(r);
            std::mem::forget(o);
            Box::new(b)
        };
        rep.eval();
        'outer: for k in 0..values {
            let c = match k % 6 {
                0 => [0.1f32, 0.2, 0.3, 0.6, 0.7, 0.9, 1.1, 1e-3, 3.3e7][(k / 6 % 9) as usize],
                1 => f32::MIN,
                2 => f32::MAX,
                3 => -(rng.f32_unit().abs() + 1e-3),
                4 => special_f32(rng),
                _ => rng.f32_unit() * 10.0,
            };
            for n in 1..=40usize {
                let mut b = vec![c; n];
                if k % 5 == 4 && n > 2 {
                    b[rng.below(n)] = special_f32(rng); // near-constant
                }
                rep.distinct(hmix(fnv_str(which), hmix(c.to_bits() as u64, n as u64)));
                rep.count(&format!("inputs:{which}(constant bursts)"), 1);
                w.push(b.clone(), &[]);
                if let Err(p) = catch(|| blk.work().map(|_| ())) {
                    rep.violation(format!("C15|{which}(burst)|panic|{}", sig_of_msg(&p)), format!("burst of {n} x {c:e}: {p}"), json!({"part": "constant-burst", "block": which, "value_bits": c.to_bits(), "n": n}));
                    break 'outer;
                }
            }
        }
    }
}

fn packets(rep: &mut Report, rng: &mut Rng) {
    // packets of length 0..8 (any content) through VecToStream on a one-page stream
    rec::stream_size(rec::PAGE);
    let (w, r) = rustradio::stream::new_nocopy_stream::<Vec<u8>>();
    let (mut b, o) = VecToStream::new(r);
    rec::stream_size(0);
    for len in 0..=8usize {
        for _ in 0..200 {
            let p = gen_bytes(rng, len);
            w.push(p, &[]);
            rep.count("inputs:VecToStream(packets)", 1);
            if let Err(p) = catch(|| b.work().map(|_| ())) {
                rep.violation(format!("C15|VecToStream|panic|{}", sig_of_msg(&p)), p, json!({"part": "packets", "len": len}));
                return;
            }
            let (rb, _) = o.read_buf().unwrap();
            let n = rb.len();
            rb.consume(n);
        }
    }
    rep.eval();
    let _ = special_f32;
}

/// Very long, very dull inputs, each in a child process (an allocation failure
/// aborts the process and cannot be caught): several minutes of signal without
/// a single transition through the clock-recovery blocks (2^24 + 1000 samples:
/// where an f32 sample counter stops counting), then a few transitions; and a
/// one-million-sample burst with two transitions through the burst blocks.
pub fn child(mode: &str) -> i32 {
    use rustradio::block::{Block, BlockRet};
    use rustradio::stream::{new_nocopy_stream, new_stream};
    let report = |ok: bool, msg: String| -> i32 {
        println!("{}", json!({"ok": ok, "msg": msg}));
        if ok { 0 } else { 3 }
    };
    let quiet_then_flips = |level: f32, blk: &mut dyn Block, tx: &rustradio::stream::WriteStream<f32>, drain: &mut dyn FnMut()| -> Result<(), String> {
        let total: usize = (1 << 24) + 1000;
        let mut sent = 0usize;
        let mut tail: Vec<f32> = vec![1.0, -1.0, 1.0, -1.0, 1.0, -1.0, 1.0, 1.0, -1.0, -1.0];
        for _ in 0..10_000 {
            {
                let mut o = tx.write_buf().map_err(|e| format!("{e}"))?;
                let n = o.len().min(total - sent);
                if n > 0 {
                    o.slice()[..n].fill(level);
                    o.produce(n, &[]);
                    sent += n;
                } else if sent == total && !tail.is_empty() && o.len() >= tail.len() {
                    let n = tail.len();
                    o.slice()[..n].copy_from_slice(&tail);
                    o.produce(n, &[]);
                    tail.clear();
                }
            }
            for _ in 0..64 {
                let again = matches!(blk.work().map_err(|e| format!("{e}"))?, BlockRet::Again);
                drain();
                if !again {
                    break;
                }
            }
            if sent == total && tail.is_empty() {
                for _ in 0..64 {
                    let again = matches!(blk.work().map_err(|e| format!("{e}"))?, BlockRet::Again);
                    drain();
                    if !again {
                        break;
                    }
                }
                return Ok(());
            }
        }
        Err("did not get through the input in 10000 rounds".into())
    };
    let r = catch(|| -> Result<String, String> {
        match mode {
            "symbolsync-quiet-negative" | "symbolsync-quiet-zero" | "symbolsync-quiet-clock" => {
                let (tx, rx) = new_stream::<f32>();
                let (mut b, o) = rustradio::blocks::SymbolSync::new(rx, 4.0, 0.5, Box::new(rustradio::symbol_sync::TedZeroCrossing::new()), Box::new(rustradio::iir_filter::IirFilter::new(&[0.1, 0.9])));
                let clk: Option<rustradio::stream::ReadStream<f32>> = if mode.ends_with("clock") { b.out_clock() } else { None };
                let mut drain = || {
                    for s in [Some(&o), clk.as_ref()].into_iter().flatten() {
                        if let Ok((rb, _)) = s.read_buf() {
                            let n = rb.len();
                            rb.consume(n);
                        }
                    }
                };
                quiet_then_flips(if mode.contains("zero") { 0.0 } else { -1.0 }, &mut b, &tx, &mut drain)?;
                Ok("SymbolSync got through 2^24+1000 samples without a transition and the transitions after them".into())
            }
            "zerocrossing-quiet-negative" | "zerocrossing-quiet-zero" => {
                let (tx, rx) = new_stream::<f32>();
                let (mut b, o) = rustradio::blocks::ZeroCrossing::new(rx, 5.2083, 0.1);
                let mut drain = || {
                    if let Ok((rb, _)) = o.read_buf() {
                        let n = rb.len();
                        rb.consume(n);
                    }
                };
                quiet_then_flips(if mode.contains("zero") { 0.0 } else { -1.0 }, &mut b, &tx, &mut drain)?;
                Ok("ZeroCrossing got through".into())
            }
            "wpcr-long-burst" | "midpointer-long-burst" => {
                let n = 1_000_000usize;
                let burst: Vec<f32> = (0..n).map(|i| if i >= n / 4 && i < n / 4 + n / 2 { 1.0 } else { -1.0 }).collect();
                let (tx, rx) = new_nocopy_stream::<Vec<f32>>();
                tx.push(burst, &[]);
                if mode.starts_with("wpcr") {
                    let (mut b, o) = rustradio::blocks::Wpcr::new(rx);
                    b.work().map_err(|e| format!("{e}"))?;
                    Ok(format!("Wpcr answered with {:?} symbols", o.pop().map(|(v, _)| v.len())))
                } else {
                    let (mut b, o) = rustradio::blocks::Midpointer::new(rx);
                    b.work().map_err(|e| format!("{e}"))?;
                    Ok(format!("Midpointer answered with {:?} samples", o.pop().map(|(v, _)| v.len())))
                }
            }
            other => Err(format!("unknown mode {other}")),
        }
    });
    match r {
        Ok(Ok(m)) => report(true, m),
        Ok(Err(e)) => report(true, format!("returned an error (fine): {e}")),
        Err(p) => report(false, format!("panicked: {p}")),
    }
}

fn long_inputs(rep: &mut Report) {
    let exe = std::env::current_exe().expect("exe");
    for mode in ["symbolsync-quiet-negative", "symbolsync-quiet-zero", "symbolsync-quiet-clock", "zerocrossing-quiet-negative", "zerocrossing-quiet-zero", "wpcr-long-burst", "midpointer-long-burst"] {
        rep.eval();
        rep.count("long_dull_inputs", 1);
        rep.set("long_dull_inputs", mode);
        let replay = json!({"part": "long-input", "mode": mode});
        // a 6 GiB address-space cap: an absurd allocation fails instead of thrashing
        let mut cmd = std::process::Command::new(&exe);
        cmd.args(["c15-child", mode]);
        unsafe {
            use std::os::unix::process::CommandExt;
            cmd.pre_exec(|| {
                let lim = libc::rlimit { rlim_cur: 6 << 30, rlim_max: 6 << 30 };
                libc::setrlimit(libc::RLIMIT_AS, &lim);
                Ok(())
            });
        }
        match cmd.output() {
            Err(e) => rep.inconclusive(format!("cannot run child: {e}")),
            Ok(o) => {
                let txt = String::from_utf8_lossy(&o.stdout).to_string();
                let v: Option<Value> = txt.lines().rev().find_map(|l| serde_json::from_str(l).ok());
                match (o.status.code(), v) {
                    (Some(0), Some(_)) => rep.count("long_dull_inputs_survived", 1),
                    (Some(3), Some(v)) => {
                        let m = v["msg"].as_str().unwrap_or("").to_string();
                        rep.violation(format!("C15|long-input|{mode}|{}", sig_of_msg(&m)), m, replay)
                    }
                    (code, _) => rep.violation(
                        format!("C15|long-input|{mode}|process-died"),
                        format!("the process died ({code:?}, signal {:?}) on a long dull input; stderr: {}", std::os::unix::process::ExitStatusExt::signal(&o.status), String::from_utf8_lossy(&o.stderr).chars().take(300).collect::<String>()),
                        replay,
                    ),
                }
            }
        }
    }
}

pub fn main(opts: &Opts) -> Report {
    let mut rep = Report::new("C15");
    rep.rule = "every catalogue block driven by drip-feed schedules with inputs that mix NaN, +-inf, denormals and huge values (float blocks) ; HdlcDeframer/RtlSdrDecode/AuDecode with arbitrary bytes, Il2pDeframer with arbitrary bytes behind sync tags; a log sink that formats every record is installed (Info on even shards, Trace on odd ones) so that the arguments of log statements are evaluated; StreamToPdu with arbitrary tag sequences; exhaustive AU header mutations (data offset 0..40, 2^31, 2^32-1; 7 encodings; 4 rates; 4 channel counts; truncations 0..28); SigMF recordings with hostile metadata (type confusion, missing keys, huge numbers, non-JSON) and archives (wrong entry types, duplicate names, non-UTF-8 names, sparse, truncated, corrupted); all bursts of length 0..6 (quick) / 0..8 (thorough) over {-1,0,1,NaN,+inf} through Midpointer and Wpcr; packets of length 0..8 through VecToStream; in child processes: 2^24+1000 samples without a transition and then a few transitions through SymbolSync (with and without clock output) and ZeroCrossing, and a one-million-sample burst with two transitions through Wpcr and Midpointer. Oracle: every call returns Ok or Err - never unwinds, aborts, or answers Again 65 times without a stream event; distinct = (target, input seed or input bytes)".into();
    rep.assume("a worker process killed by SIGSEGV/SIGABRT is reported by the driver as a violation; the address-sanitizer build of the same workload runs in the thorough tier");
    rec::install(true);
    // Every example program installs a logger; the crate's own tests do not, and the
    // `log` macros evaluate their arguments only when one is listening.
    install_formatting_logger(if opts.shard % 2 == 1 { log::LevelFilter::Trace } else { log::LevelFilter::Info });
    let mut rng = Rng::new(opts.shard_seed() ^ 0xC15);
    if opts.replay.is_some() {
        // inputs are regenerated from the shard seeds; replay re-runs the quick workload
    }
    let before = rep.evaluations;
    catalogue_with_specials(opts, &mut rep, &mut rng);
    arbitrary_bytes(opts, &mut rep, &mut rng);
    // (not under AddressSanitizer: its shadow memory does not fit the children's
    // address-space cap, and the cap is what turns an absurd allocation into a
    // clean failure instead of thrashing)
    if (opts.shard == 1 || opts.nshards == 1) && opts.val("variant").as_deref() != Some("asan") {
        long_inputs(&mut rep);
    }
    if opts.shard == 0 {
        au_headers(&mut rep);
    }
    sigmf_inputs(opts, &mut rep, &mut rng);
    bursts(opts, &mut rep);
    constant_bursts(opts, &mut rep, &mut rng);
    packets(&mut rep, &mut rng);
    let _ = before;
    rep.count("log_records_formatted", LOG_RECORDS.load(Ordering::Relaxed));
    rep.sample(json!({"targets": rep.counters.keys().filter(|k| k.starts_with("inputs:")).collect::<Vec<_>>()}));
    let _: Option<Value> = None;
    rep
}
