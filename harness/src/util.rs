//! PRNG, hashing, shard report.
use serde_json::{Map, Value, json};
use std::collections::{BTreeMap, BTreeSet};

/// xoshiro256** seeded through splitmix64. Deterministic, no dependencies.
#[derive(Clone, Debug)]
pub struct Rng {
    s: [u64; 4],
}

fn splitmix(x: &mut u64) -> u64 {
    *x = x.wrapping_add(0x9E3779B97F4A7C15);
    let mut z = *x;
    z = (z ^ (z >> 30)).wrapping_mul(0xBF58476D1CE4E5B9);
    z = (z ^ (z >> 27)).wrapping_mul(0x94D049BB133111EB);
    z ^ (z >> 31)
}

impl Rng {
    pub fn new(seed: u64) -> Self {
        let mut x = seed ^ 0x5DEECE66D;
        let s = [
            splitmix(&mut x),
            splitmix(&mut x),
            splitmix(&mut x),
            splitmix(&mut x),
        ];
        Self { s }
    }
    pub fn next(&mut self) -> u64 {
        let r = self.s[1].wrapping_mul(5).rotate_left(7).wrapping_mul(9);
        let t = self.s[1] << 17;
        self.s[2] ^= self.s[0];
        self.s[3] ^= self.s[1];
        self.s[1] ^= self.s[2];
        self.s[0] ^= self.s[3];
        self.s[2] ^= t;
        self.s[3] = self.s[3].rotate_left(45);
        r
    }
    /// Uniform in [0, n). n == 0 returns 0.
    pub fn below(&mut self, n: usize) -> usize {
        if n == 0 {
            0
        } else {
            (self.next() % n as u64) as usize
        }
    }
    /// Uniform in [lo, hi] inclusive.
    pub fn range(&mut self, lo: usize, hi: usize) -> usize {
        lo + self.below(hi - lo + 1)
    }
    pub fn chance(&mut self, num: usize, den: usize) -> bool {
        self.below(den) < num
    }
    pub fn pick<'a, T>(&mut self, v: &'a [T]) -> &'a T {
        &v[self.below(v.len())]
    }
    pub fn f32_unit(&mut self) -> f32 {
        // [-1, 1)
        ((self.next() >> 40) as f32 / (1u64 << 24) as f32) * 2.0 - 1.0
    }
    pub fn f64_unit(&mut self) -> f64 {
        ((self.next() >> 11) as f64 / (1u64 << 53) as f64) * 2.0 - 1.0
    }
    pub fn fork(&mut self) -> Rng {
        Rng::new(self.next())
    }
    pub fn shuffle<T>(&mut self, v: &mut [T]) {
        for i in (1..v.len()).rev() {
            let j = self.below(i + 1);
            v.swap(i, j);
        }
    }
}

/// FNV-1a over bytes.
pub fn fnv(data: &[u8]) -> u64 {
    let mut h: u64 = 0xcbf29ce484222325;
    for b in data {
        h ^= *b as u64;
        h = h.wrapping_mul(0x100000001b3);
    }
    h
}
pub fn fnv_str(s: &str) -> u64 {
    fnv(s.as_bytes())
}
pub fn hmix(a: u64, b: u64) -> u64 {
    let mut x = a ^ b.wrapping_mul(0x9E3779B97F4A7C15);
    splitmix(&mut x)
}

#[derive(Debug, Clone)]
pub struct Violation {
    /// Exact signature used to match known findings.
    pub sig: String,
    /// Human readable detail.
    pub detail: String,
    /// Everything needed to re-run the failing case.
    pub replay: Value,
}

/// What one shard observed.
pub struct Report {
    pub prop: String,
    pub rule: String,
    pub evaluations: u64,
    pub distinct: BTreeSet<u64>,
    pub samples: Vec<Value>,
    pub counters: BTreeMap<String, u64>,
    pub sets: BTreeMap<String, BTreeSet<String>>,
    pub violations: Vec<Violation>,
    pub inconclusive: Vec<String>,
    pub assumptions: Vec<String>,
    pub exhaustive: Option<bool>,
    max_samples: usize,
    max_viol_per_sig: usize,
}

impl Report {
    pub fn new(prop: &str) -> Self {
        Self {
            prop: prop.to_string(),
            rule: String::new(),
            evaluations: 0,
            distinct: BTreeSet::new(),
            samples: Vec::new(),
            counters: BTreeMap::new(),
            sets: BTreeMap::new(),
            violations: Vec::new(),
            inconclusive: Vec::new(),
            assumptions: Vec::new(),
            exhaustive: None,
            max_samples: 4,
            max_viol_per_sig: 3,
        }
    }
    pub fn eval(&mut self) {
        self.evaluations += 1;
    }
    /// Record a distinct non-trivial case by hash.
    pub fn distinct(&mut self, h: u64) {
        if self.distinct.len() < 400_000 {
            self.distinct.insert(h);
        }
    }
    pub fn count(&mut self, k: &str, n: u64) {
        *self.counters.entry(k.to_string()).or_insert(0) += n;
    }
    pub fn max(&mut self, k: &str, n: u64) {
        let e = self.counters.entry(format!("max_{k}")).or_insert(0);
        if n > *e {
            *e = n;
        }
    }
    pub fn set(&mut self, k: &str, v: impl Into<String>) {
        let s = self.sets.entry(k.to_string()).or_default();
        if s.len() < 2000 {
            s.insert(v.into());
        }
    }
    pub fn sample(&mut self, v: Value) {
        if self.samples.len() < self.max_samples {
            self.samples.push(v);
        }
    }
    pub fn want_sample(&self) -> bool {
        self.samples.len() < self.max_samples
    }
    pub fn violation(&mut self, sig: impl Into<String>, detail: impl Into<String>, replay: Value) {
        let sig = sig.into();
        let n = self.violations.iter().filter(|v| v.sig == sig).count();
        self.count(&format!("viol:{sig}"), 1);
        if n < self.max_viol_per_sig {
            self.violations.push(Violation {
                sig,
                detail: detail.into(),
                replay,
            });
        }
    }
    pub fn inconclusive(&mut self, why: impl Into<String>) {
        if self.inconclusive.len() < 20 {
            self.inconclusive.push(why.into());
        }
    }
    /// A single scenario given up by its generous wall-clock watchdog: neither
    /// held nor violated. It is counted and listed in the evidence, but does not
    /// make the whole check inconclusive (the rest was explored).
    pub fn abandoned(&mut self, why: impl Into<String>) {
        self.count("scenarios_abandoned_by_watchdog", 1);
        let why = why.into();
        let s = self.sets.entry("abandoned_scenarios".to_string()).or_default();
        if s.len() < 20 {
            s.insert(why);
        }
    }
    pub fn assume(&mut self, s: &str) {
        if !self.assumptions.iter().any(|a| a == s) {
            self.assumptions.push(s.to_string());
        }
    }
    pub fn to_json(&self) -> Value {
        let mut sets = Map::new();
        for (k, v) in &self.sets {
            sets.insert(k.clone(), json!(v.iter().collect::<Vec<_>>()));
        }
        json!({
            "prop": self.prop,
            "rule": self.rule,
            "evaluations": self.evaluations,
            "distinct": self.distinct.iter().map(|h| format!("{h:016x}")).collect::<Vec<_>>(),
            "samples": self.samples,
            "counters": self.counters,
            "sets": sets,
            "violations": self.violations.iter().map(|v| json!({"sig": v.sig, "detail": v.detail, "replay": v.replay})).collect::<Vec<_>>(),
            "inconclusive": self.inconclusive,
            "assumptions": self.assumptions,
            "exhaustive": self.exhaustive,
        })
    }
}

/// Run `f`, catching a panic; returns Err(message) on unwind.
pub fn catch<R>(f: impl FnOnce() -> R) -> Result<R, String> {
    match std::panic::catch_unwind(std::panic::AssertUnwindSafe(f)) {
        Ok(r) => Ok(r),
        Err(e) => Err(panic_msg(&e)),
    }
}

pub fn panic_msg(e: &Box<dyn std::any::Any + Send>) -> String {
    if let Some(s) = e.downcast_ref::<&str>() {
        s.to_string()
    } else if let Some(s) = e.downcast_ref::<String>() {
        s.clone()
    } else {
        "<non-string panic>".to_string()
    }
}

/// Options common to all subcommands.
#[derive(Clone, Debug)]
pub struct Opts {
    pub tier: String,
    pub seed: u64,
    pub shard: usize,
    pub nshards: usize,
    pub out: Option<String>,
    pub replay: Option<String>,
    pub extra: Vec<String>,
}

impl Opts {
    pub fn thorough(&self) -> bool {
        self.tier == "thorough"
    }
    /// Seed for this shard.
    pub fn shard_seed(&self) -> u64 {
        self.seed
            .wrapping_mul(1_000_003)
            .wrapping_add(self.shard as u64)
    }
    /// Pick quick or thorough budget, divided over shards (at least 1).
    pub fn budget(&self, quick: u64, thorough: u64) -> u64 {
        let total = if self.thorough() { thorough } else { quick };
        // `scale=N` (a slower build variant run alongside the main one): 1/N of the budget
        let scale = self.val("scale").and_then(|s| s.parse::<u64>().ok()).unwrap_or(1).max(1);
        std::cmp::max(1, total / self.nshards as u64 / scale)
    }
    pub fn flag(&self, name: &str) -> bool {
        self.extra.iter().any(|e| e == name)
    }
    pub fn val(&self, name: &str) -> Option<String> {
        let pre = format!("{name}=");
        self.extra
            .iter()
            .find_map(|e| e.strip_prefix(&pre).map(|s| s.to_string()))
    }
}

/// Shorten a panic message into a stable signature fragment (digits removed).
pub fn sig_of_msg(msg: &str) -> String {
    let mut out = String::new();
    let mut last_hash = false;
    for c in msg.chars().take(160) {
        if c.is_ascii_digit() {
            if !last_hash {
                out.push('#');
                last_hash = true;
            }
        } else {
            out.push(c);
            last_hash = false;
        }
    }
    out
}

/// Path of this shard's report (set by main), for `fatal_violation`.
pub static OUT_PATH: std::sync::Mutex<Option<String>> = std::sync::Mutex::new(None);

/// The code under test can no longer be stopped from inside the process (e.g.
/// a runner that ignores cancellation): write a report carrying this one
/// violation and leave. The remaining cases of the shard are not run.
pub fn fatal_violation(prop: &str, sig: &str, detail: &str, replay: Value) -> ! {
    let mut rep = Report::new(prop);
    rep.evaluations = 1;
    rep.violation(sig, detail, replay);
    rep.count("shard_aborted_after_unstoppable_run", 1);
    let js = serde_json::to_string(&rep.to_json()).unwrap();
    match OUT_PATH.lock().unwrap().as_ref() {
        Some(p) => {
            let _ = std::fs::write(p, js);
        }
        None => println!("{js}"),
    }
    std::process::exit(0);
}


// ------------------------------------------------------ blocked-forever rule

/// (state letter, voluntary context switches) of a thread of this process.
pub fn task_stat(tid: i32) -> Option<(char, u64)> {
    let st = std::fs::read_to_string(format!("/proc/self/task/{tid}/status")).ok()?;
    let mut state = '?';
    let mut vol = 0u64;
    for l in st.lines() {
        if let Some(r) = l.strip_prefix("State:") {
            state = r.trim().chars().next().unwrap_or('?');
        } else if let Some(r) = l.strip_prefix("voluntary_ctxt_switches:") {
            vol = r.trim().parse().unwrap_or(0);
        }
    }
    Some((state, vol))
}

/// Thread ids of this process whose name (comm, 15 chars) is one of `names`.
pub fn tasks_named(names: &[String]) -> Vec<i32> {
    let mut v = Vec::new();
    if let Ok(rd) = std::fs::read_dir("/proc/self/task") {
        for e in rd.flatten() {
            let Ok(tid) = e.file_name().to_string_lossy().parse::<i32>() else { continue };
            let comm = std::fs::read_to_string(format!("/proc/self/task/{tid}/comm")).unwrap_or_default();
            let comm = comm.trim();
            if names.iter().any(|n| n.chars().take(15).collect::<String>() == comm) {
                v.push(tid);
            }
        }
    }
    v
}

/// A thread started by the harness whose closure calls into the library and
/// may never come back (a wait that lost its time-out, a lock never released).
/// There are no logical steps to count on a parked thread, so the rule reads
/// the kernel's own counters: every wait of the library is a 100 ms timed
/// wait, i.e. a parked-but-healthy thread blocks *again* (one more voluntary
/// context switch) ten times a second; a thread that sleeps in state S with an
/// unchanged voluntary-context-switch count for the whole window made no step
/// at all. A loaded machine slows a thread down (state R, counts still
/// moving): that never matches.
pub struct Supervised<T> {
    handle: std::thread::JoinHandle<T>,
    tid: i32,
}
pub fn spawn_supervised<T: Send + 'static>(name: &str, f: impl FnOnce() -> T + Send + 'static) -> Supervised<T> {
    let (tx, rx) = std::sync::mpsc::channel();
    let handle = std::thread::Builder::new()
        .name(name.to_string())
        .spawn(move || {
            let _ = tx.send(unsafe { libc::syscall(libc::SYS_gettid) } as i32);
            f()
        })
        .expect("spawn");
    let tid = rx.recv().unwrap_or(0);
    Supervised { handle, tid }
}
impl<T> Supervised<T> {
    pub fn is_finished(&self) -> bool {
        self.handle.is_finished()
    }
    /// Join; Err(description) if the thread is blocked for good (it is leaked).
    pub fn join_or_blocked(self, window: std::time::Duration) -> Result<std::thread::Result<T>, String> {
        let mut mark: Option<(std::time::Instant, u64)> = None;
        loop {
            if self.handle.is_finished() {
                return Ok(self.handle.join());
            }
            match task_stat(self.tid) {
                Some(('S', vol)) => match mark {
                    Some((t0, v0)) if v0 == vol => {
                        if t0.elapsed() >= window {
                            return Err(format!("thread {} slept in state S for {:?} without a single wake-up (voluntary context switches stayed at {vol}); the library's waits are 100 ms timed waits", self.tid, t0.elapsed()));
                        }
                    }
                    _ => mark = Some((std::time::Instant::now(), vol)),
                },
                _ => mark = None,
            }
            std::thread::sleep(std::time::Duration::from_millis(40));
        }
    }
}


// ---------------------------------------------------------------------------
// A `log` sink that formats every record (so the arguments of the library's
// log statements are evaluated and their Display/Debug impls run, as they do
// in every program that installs a logger) and throws the text away.
pub static LOG_RECORDS: std::sync::atomic::AtomicU64 = std::sync::atomic::AtomicU64::new(0);
pub static LOG_BYTES: std::sync::atomic::AtomicU64 = std::sync::atomic::AtomicU64::new(0);
struct CountSink(u64);
impl std::fmt::Write for CountSink {
    fn write_str(&mut self, s: &str) -> std::fmt::Result {
        self.0 += s.len() as u64;
        Ok(())
    }
}
struct FormattingLogger;
impl log::Log for FormattingLogger {
    fn enabled(&self, _: &log::Metadata) -> bool {
        true
    }
    fn log(&self, record: &log::Record) {
        use std::fmt::Write;
        let mut sink = CountSink(0);
        let _ = write!(sink, "{}", record.args());
        LOG_RECORDS.fetch_add(1, std::sync::atomic::Ordering::Relaxed);
        LOG_BYTES.fetch_add(sink.0, std::sync::atomic::Ordering::Relaxed);
    }
    fn flush(&self) {}
}
static FORMATTING_LOGGER: FormattingLogger = FormattingLogger;
pub fn install_formatting_logger(level: log::LevelFilter) {
    let _ = log::set_logger(&FORMATTING_LOGGER);
    log::set_max_level(level);
}
