//! Graph program generator, probes, collecting sinks and the harness's own
//! sequential reference executor (C05, C06, C07).
use crate::drip::{C32, Data};
use crate::duts::{gen_bits, gen_bytes, gen_c32, gen_f32};
use crate::rec;
use crate::util::*;
use rustradio::block::{Block, BlockEOF, BlockName, BlockRet};
use rustradio::blocks::*;
use rustradio::stream::{NCReadStream, ReadStream};
use rustradio::window::WindowType;
use rustradio::{Error, Repeat};
use serde_json::{Value, json};
use std::sync::atomic::{AtomicBool, AtomicU64, Ordering};
use std::sync::{Arc, Mutex};

#[derive(Clone, Copy, Debug, PartialEq)]
pub enum Ty {
    Bits,
    Bytes,
    F32,
    C32,
    Pkt,
}

#[derive(Clone, Debug)]
pub enum Op {
    XorConst(u8),
    Nrzi,
    Descramble,
    Delay(usize),
    Skip(usize),
    Resample(usize, usize),
    CacTag(Vec<u8>),
    RtlDecode,
    Hdlc(usize, usize),
    VecToStream,
    AddConstF(f32),
    MulConstF(f32),
    Slicer,
    FirF(Vec<f32>, usize),
    FftFiltF(Vec<f32>),
    IirF(f32),
    Hilbert(usize),
    Mag2,
    QuadDemod(f32),
    FftFiltC(Vec<C32>),
    MulConstC(C32),
    /// Tee, two rate-preserving branches, merged by Xor (bits/bytes) or Add (f32) or FloatToComplex.
    Diamond(Vec<Op>, Vec<Op>, u8),
    /// Add a second, independent finite source of the given length: the merge
    /// ends with the shorter side and the longer side's producer has to notice
    /// (under MTGraph it may be parked on a full stream at that moment).
    AddSecond(usize, u64),
}

impl Op {
    pub fn name(&self) -> String {
        match self {
            Op::FirF(t, d) => format!("FirF({},{d})", t.len()),
            Op::FftFiltF(t) => format!("FftFiltF({})", t.len()),
            Op::FftFiltC(t) => format!("FftFiltC({})", t.len()),
            Op::CacTag(c) => format!("CacTag({})", c.len()),
            Op::AddSecond(n, _) => format!("AddSecondSource({n})"),
            Op::Diamond(a, b, m) => format!(
                "Diamond[{}|{}]{}",
                a.iter().map(|o| o.name()).collect::<Vec<_>>().join(">"),
                b.iter().map(|o| o.name()).collect::<Vec<_>>().join(">"),
                m
            ),
            other => format!("{other:?}"),
        }
    }
}

#[derive(Clone, Debug)]
pub struct Program {
    pub src_ty: Ty,
    pub src_len: usize,
    pub src_seed: u64,
    pub repeat: u64,
    pub ops: Vec<Op>,
    pub stream_bytes: usize, // 0 = library default
    /// The sink is the library's VectorSink and, while a runner runs, a second
    /// thread keeps taking its `Hook::data()` guard for short moments (what a
    /// test or UI thread watching the sink does).
    pub vector_sink: bool,
}

impl Program {
    pub fn describe(&self) -> Value {
        json!({"source": format!("{:?} x{} repeat {}", self.src_ty, self.src_len, self.repeat),
               "ops": self.ops.iter().map(|o| o.name()).collect::<Vec<_>>(),
               "stream_bytes": self.stream_bytes,
               "sink": if self.vector_sink { "VectorSink watched by a second thread" } else { "CollectSink" }})
    }
    pub fn nblocks(&self) -> usize {
        fn cnt(ops: &[Op]) -> usize {
            ops.iter()
                .map(|o| match o {
                    Op::Diamond(a, b, _) => 2 + cnt(a) + cnt(b),
                    Op::AddSecond(..) => 2,
                    _ => 1,
                })
                .sum()
        }
        2 + cnt(&self.ops)
    }
}

/// Shared statistics of one probed block.
#[derive(Default)]
pub struct ProbeStats {
    pub name: Mutex<String>,
    pub calls: AtomicU64,
    pub calls_after_cancel: AtomicU64,
    pub dropped: AtomicBool,
    /// Last call: (verdict code, moved data?)
    pub last: Mutex<(u8, bool)>,
    pub errors: AtomicU64,
    /// A work() call is in progress right now (set on entry, cleared on exit or unwind).
    pub in_work: AtomicBool,
}

pub static CANCELLED: AtomicBool = AtomicBool::new(false);

pub struct Probe {
    inner: std::mem::ManuallyDrop<Box<dyn Block + Send>>,
    stats: Arc<ProbeStats>,
}
impl Probe {
    pub fn wrap(inner: Box<dyn Block + Send>) -> (Box<dyn Block + Send>, Arc<ProbeStats>) {
        let stats = Arc::new(ProbeStats::default());
        *stats.name.lock().unwrap() = inner.block_name().to_string();
        (
            Box::new(Probe {
                inner: std::mem::ManuallyDrop::new(inner),
                stats: stats.clone(),
            }),
            stats,
        )
    }
}
impl Drop for Probe {
    fn drop(&mut self) {
        // The block (and with it its stream ends) goes first; only then is it
        // announced as gone. Announcing first let the monitor see "block gone,
        // but its neighbours still find the stream open" for as long as this
        // thread stayed preempted between the two steps (seen once in 100 000
        // thorough runs on a loaded machine: a false "does-not-terminate").
        // SAFETY: `inner` is not used after this point.
        unsafe { std::mem::ManuallyDrop::drop(&mut self.inner) };
        self.stats.dropped.store(true, Ordering::SeqCst);
        rec::note_progress();
    }
}
impl BlockName for Probe {
    fn block_name(&self) -> &str {
        self.inner.block_name()
    }
}
impl BlockEOF for Probe {
    fn eof(&mut self) -> bool {
        self.inner.eof()
    }
}
pub fn verdict_code(r: &rustradio::Result<BlockRet>) -> u8 {
    match r {
        Ok(BlockRet::Again) => 0,
        Ok(BlockRet::Pending) => 1,
        Ok(BlockRet::WaitForFunc(_)) => 2,
        Ok(BlockRet::WaitForStream(..)) => 3,
        Ok(BlockRet::EOF) => 4,
        Err(_) => 5,
    }
}
impl Block for Probe {
    fn work(&mut self) -> rustradio::Result<BlockRet> {
        self.stats.calls.fetch_add(1, Ordering::SeqCst);
        if CANCELLED.load(Ordering::SeqCst) {
            self.stats.calls_after_cancel.fetch_add(1, Ordering::SeqCst);
        }
        let before = rec::thread_data_events();
        struct InWork<'a>(&'a AtomicBool);
        impl Drop for InWork<'_> {
            fn drop(&mut self) {
                self.0.store(false, Ordering::SeqCst);
            }
        }
        self.stats.in_work.store(true, Ordering::SeqCst);
        let guard = InWork(&self.stats.in_work);
        let r = self.inner.work();
        drop(guard);
        let moved = rec::thread_data_events() != before;
        let mut code = verdict_code(&r);
        if moved {
            if let Ok(BlockRet::WaitForStream(s, _)) = &r {
                // Which side does the wait name? A non-blocking wait(0) passes the
                // yield point of the read or of the write side.
                rec::reset_wait_dir();
                let _ = s.wait(0);
                code = match rec::wait_dir() {
                    1 => 6, // wait on an input
                    2 => 7, // wait on an output
                    _ => 3,
                };
            }
        }
        *self.stats.last.lock().unwrap() = (code, moved);
        if r.is_err() {
            self.stats.errors.fetch_add(1, Ordering::SeqCst);
        }
        r
    }
}

/// Unbounded collecting sink for sample streams.
pub struct CollectSink<T: Copy + Send> {
    src: ReadStream<T>,
    got: Arc<Mutex<Vec<T>>>,
}
impl<T: Copy + Send> BlockName for CollectSink<T> {
    fn block_name(&self) -> &str {
        "CollectSink"
    }
}
impl<T: Copy + Send> BlockEOF for CollectSink<T> {
    fn eof(&mut self) -> bool {
        self.src.eof()
    }
}
impl<T: Copy + Send> Block for CollectSink<T> {
    fn work(&mut self) -> rustradio::Result<BlockRet> {
        let (i, _t) = self.src.read_buf()?;
        let n = i.len();
        if n > 0 {
            self.got.lock().unwrap().extend_from_slice(i.slice());
        }
        i.consume(n);
        Ok(BlockRet::WaitForStream(&self.src, 1))
    }
}
pub struct PktSink {
    src: NCReadStream<Vec<u8>>,
    got: Arc<Mutex<Vec<Vec<u8>>>>,
}
impl PktSink {
    pub fn new(src: NCReadStream<Vec<u8>>, got: Arc<Mutex<Vec<Vec<u8>>>>) -> Self {
        Self { src, got }
    }
}
impl BlockName for PktSink {
    fn block_name(&self) -> &str {
        "PktSink"
    }
}
impl BlockEOF for PktSink {
    fn eof(&mut self) -> bool {
        self.src.eof()
    }
}
impl Block for PktSink {
    fn work(&mut self) -> rustradio::Result<BlockRet> {
        match self.src.pop() {
            Some((p, _)) => {
                self.got.lock().unwrap().push(p);
                Ok(BlockRet::Again)
            }
            None => Ok(BlockRet::WaitForStream(&self.src, 1)),
        }
    }
}

#[derive(Clone)]
pub enum SinkHandle {
    U8(Arc<Mutex<Vec<u8>>>),
    F32(Arc<Mutex<Vec<f32>>>),
    C32(Arc<Mutex<Vec<C32>>>),
    Pkt(Arc<Mutex<Vec<Vec<u8>>>>),
    VU8(Arc<rustradio::vector_sink::Hook<u8>>),
    VF32(Arc<rustradio::vector_sink::Hook<f32>>),
    VC32(Arc<rustradio::vector_sink::Hook<C32>>),
}
impl SinkHandle {
    /// For a VectorSink: a closure that takes the data guard, looks at it and
    /// holds it for the given time.
    pub fn watcher(&self) -> Option<Box<dyn Fn(std::time::Duration) -> usize + Send>> {
        fn mk<T: Copy + Send + 'static>(h: &Arc<rustradio::vector_sink::Hook<T>>) -> Box<dyn Fn(std::time::Duration) -> usize + Send> {
            let h = h.clone();
            Box::new(move |hold| {
                let d = h.data();
                let n = d.samples().len() + d.tags().len();
                if !hold.is_zero() {
                    std::thread::sleep(hold);
                }
                n
            })
        }
        match self {
            SinkHandle::VU8(h) => Some(mk(h)),
            SinkHandle::VF32(h) => Some(mk(h)),
            SinkHandle::VC32(h) => Some(mk(h)),
            _ => None,
        }
    }
    pub fn data(&self) -> Data {
        match self {
            SinkHandle::VU8(h) => Data::U8(h.data().samples().to_vec()),
            SinkHandle::VF32(h) => Data::F32(h.data().samples().to_vec()),
            SinkHandle::VC32(h) => Data::C32(h.data().samples().to_vec()),
            SinkHandle::U8(v) => Data::U8(v.lock().unwrap().clone()),
            SinkHandle::F32(v) => Data::F32(v.lock().unwrap().clone()),
            SinkHandle::C32(v) => Data::C32(v.lock().unwrap().clone()),
            SinkHandle::Pkt(v) => Data::PU8(v.lock().unwrap().clone()),
        }
    }
}

enum Wire {
    U8(ReadStream<u8>, bool), // bool: bits only
    F32(ReadStream<f32>),
    C32(ReadStream<C32>),
    Pkt(NCReadStream<Vec<u8>>),
}
impl Wire {
    fn ty(&self) -> Ty {
        match self {
            Wire::U8(_, true) => Ty::Bits,
            Wire::U8(_, false) => Ty::Bytes,
            Wire::F32(_) => Ty::F32,
            Wire::C32(_) => Ty::C32,
            Wire::Pkt(_) => Ty::Pkt,
        }
    }
}

pub struct BuiltGraph {
    pub blocks: Vec<(Box<dyn Block + Send>, Arc<ProbeStats>)>,
    pub sink: SinkHandle,
    /// Stream ends the "application" holds on to while the graph runs.
    pub keep: Vec<Box<dyn std::any::Any + Send>>,
}

struct B {
    blocks: Vec<(Box<dyn Block + Send>, Arc<ProbeStats>)>,
}
impl B {
    fn add<Bl: Block + Send + 'static>(&mut self, b: Bl) {
        self.blocks.push(Probe::wrap(Box::new(b)));
    }
}

fn apply(b: &mut B, w: Wire, op: &Op) -> Wire {
    match (w, op) {
        (Wire::U8(r, bits), Op::XorConst(v)) => {
            let (bl, o) = XorConst::new(r, *v);
            b.add(bl);
            Wire::U8(o, bits && *v <= 1)
        }
        (Wire::U8(r, bits), Op::Nrzi) => {
            let (bl, o) = NrziDecode::new(r);
            b.add(bl);
            Wire::U8(o, bits)
        }
        (Wire::U8(r, true), Op::Descramble) => {
            let (bl, o) = Descrambler::new_g3ruh(r);
            b.add(bl);
            Wire::U8(o, true)
        }
        (Wire::U8(r, bits), Op::Delay(d)) => {
            let (bl, o) = Delay::new(r, *d);
            b.add(bl);
            Wire::U8(o, bits)
        }
        (Wire::F32(r), Op::Delay(d)) => {
            let (bl, o) = Delay::new(r, *d);
            b.add(bl);
            Wire::F32(o)
        }
        (Wire::U8(r, bits), Op::Skip(k)) => {
            let (bl, o) = Skip::new(r, *k);
            b.add(bl);
            Wire::U8(o, bits)
        }
        (Wire::F32(r), Op::Skip(k)) => {
            let (bl, o) = Skip::new(r, *k);
            b.add(bl);
            Wire::F32(o)
        }
        (Wire::U8(r, bits), Op::Resample(i, d)) => {
            let (bl, o) = RationalResampler::new(r, *i, *d).unwrap();
            b.add(bl);
            Wire::U8(o, bits)
        }
        (Wire::F32(r), Op::Resample(i, d)) => {
            let (bl, o) = RationalResampler::new(r, *i, *d).unwrap();
            b.add(bl);
            Wire::F32(o)
        }
        (Wire::C32(r), Op::Resample(i, d)) => {
            let (bl, o) = RationalResampler::new(r, *i, *d).unwrap();
            b.add(bl);
            Wire::C32(o)
        }
        (Wire::U8(r, bits), Op::CacTag(code)) => {
            let (bl, o) = CorrelateAccessCodeTag::new(r, code.clone(), "sync", 0);
            b.add(bl);
            Wire::U8(o, bits)
        }
        (Wire::U8(r, _), Op::RtlDecode) => {
            let (bl, o) = RtlSdrDecode::new(r);
            b.add(bl);
            Wire::C32(o)
        }
        (Wire::U8(r, true), Op::Hdlc(mi, mx)) => {
            let (bl, o) = HdlcDeframer::new(r, *mi, *mx);
            b.add(bl);
            Wire::Pkt(o)
        }
        (Wire::Pkt(r), Op::VecToStream) => {
            let (bl, o) = VecToStream::new(r);
            b.add(bl);
            Wire::U8(o, false)
        }
        (Wire::F32(r), Op::AddConstF(v)) => {
            let (bl, o) = AddConst::new(r, *v);
            b.add(bl);
            Wire::F32(o)
        }
        (Wire::F32(r), Op::MulConstF(v)) => {
            let (bl, o) = MultiplyConst::new(r, *v);
            b.add(bl);
            Wire::F32(o)
        }
        (Wire::F32(r), Op::Slicer) => {
            let (bl, o) = BinarySlicer::new(r);
            b.add(bl);
            Wire::U8(o, true)
        }
        (Wire::F32(r), Op::FirF(t, d)) => {
            let (bl, o) = FirFilterBuilder::new(t).deci(*d).build(r);
            b.add(bl);
            Wire::F32(o)
        }
        (Wire::F32(r), Op::FftFiltF(t)) => {
            let (bl, o) = FftFilterFloat::new(r, t);
            b.add(bl);
            Wire::F32(o)
        }
        (Wire::F32(r), Op::IirF(a)) => {
            let (bl, o) = SinglePoleIirFilter::new(r, *a).unwrap();
            b.add(bl);
            Wire::F32(o)
        }
        (Wire::F32(r), Op::Hilbert(n)) => {
            let (bl, o) = Hilbert::new(r, *n, &WindowType::Hamming);
            b.add(bl);
            Wire::C32(o)
        }
        (Wire::C32(r), Op::Mag2) => {
            let (bl, o) = ComplexToMag2::new(r);
            b.add(bl);
            Wire::F32(o)
        }
        (Wire::C32(r), Op::QuadDemod(g)) => {
            let (bl, o) = QuadratureDemod::new(r, *g);
            b.add(bl);
            Wire::F32(o)
        }
        (Wire::C32(r), Op::FftFiltC(t)) => {
            let (bl, o) = FftFilter::new(r, t);
            b.add(bl);
            Wire::C32(o)
        }
        (Wire::C32(r), Op::MulConstC(v)) => {
            let (bl, o) = MultiplyConst::new(r, *v);
            b.add(bl);
            Wire::C32(o)
        }
        (Wire::U8(r, bits), Op::Diamond(a, bb, _)) => {
            let (t, o1, o2) = Tee::new(r);
            b.add(t);
            let mut w1 = Wire::U8(o1, bits);
            for op in a {
                w1 = apply(b, w1, op);
            }
            let mut w2 = Wire::U8(o2, bits);
            for op in bb {
                w2 = apply(b, w2, op);
            }
            match (w1, w2) {
                (Wire::U8(x, b1), Wire::U8(y, b2)) => {
                    let (m, o) = Xor::new(x, y);
                    b.add(m);
                    Wire::U8(o, b1 && b2)
                }
                _ => panic!("harness: diamond branch changed type"),
            }
        }
        (Wire::F32(r), Op::Diamond(a, bb, merge)) => {
            let (t, o1, o2) = Tee::new(r);
            b.add(t);
            let mut w1 = Wire::F32(o1);
            for op in a {
                w1 = apply(b, w1, op);
            }
            let mut w2 = Wire::F32(o2);
            for op in bb {
                w2 = apply(b, w2, op);
            }
            match (w1, w2) {
                (Wire::F32(x), Wire::F32(y)) => {
                    if *merge == 0 {
                        let (m, o) = Add::new(x, y);
                        b.add(m);
                        Wire::F32(o)
                    } else {
                        let (m, o) = FloatToComplex::new(x, y);
                        b.add(m);
                        Wire::C32(o)
                    }
                }
                _ => panic!("harness: diamond branch changed type"),
            }
        }
        (Wire::F32(r), Op::AddSecond(n, seed)) => {
            let v = gen_f32(&mut Rng::new(*seed), *n);
            let (s2, o2) = VectorSourceBuilder::new(v).build();
            b.add(s2);
            let (m, o) = Add::new(r, o2);
            b.add(m);
            Wire::F32(o)
        }
        (w, op) => panic!("harness: op {op:?} not applicable to {:?}", w.ty()),
    }
}

pub fn source_data(p: &Program) -> Data {
    let mut rng = Rng::new(p.src_seed);
    match p.src_ty {
        Ty::Bits => {
            let wants_frames = p.ops.iter().any(|o| matches!(o, Op::Hdlc(..)));
            if wants_frames {
                let mut bits = Vec::new();
                while bits.len() < p.src_len {
                    let plen = rng.range(3, 60);
                    let payload = gen_bytes(&mut rng, plen);
                    bits.extend(crate::hdlc::frame_bits(&payload, rng.range(1, 4), true));
                    if rng.chance(1, 3) {
                        let k = rng.range(1, 40);
                        bits.extend(gen_bits(&mut rng, k));
                    }
                }
                bits.truncate(p.src_len);
                Data::U8(bits)
            } else {
                Data::U8(gen_bits(&mut rng, p.src_len))
            }
        }
        Ty::Bytes => Data::U8(gen_bytes(&mut rng, p.src_len)),
        Ty::F32 => Data::F32(gen_f32(&mut rng, p.src_len)),
        Ty::C32 => Data::C32(gen_c32(&mut rng, p.src_len)),
        Ty::Pkt => unreachable!(),
    }
}

/// Build the program's blocks (source first, sink last) on streams of the
/// program's size. `infinite` makes the source repeat forever (C07).
pub fn build(p: &Program, infinite: bool) -> BuiltGraph {
    rec::stream_size(p.stream_bytes);
    let mut b = B { blocks: Vec::new() };
    let rep = if infinite { Repeat::infinite() } else { Repeat::finite(p.repeat) };
    let mut w = match source_data(p) {
        Data::U8(v) => {
            let (s, o) = VectorSourceBuilder::new(v).repeat(rep).build();
            b.add(s);
            Wire::U8(o, p.src_ty == Ty::Bits)
        }
        Data::F32(v) => {
            let (s, o) = VectorSourceBuilder::new(v).repeat(rep).build();
            b.add(s);
            Wire::F32(o)
        }
        Data::C32(v) => {
            let (s, o) = VectorSourceBuilder::new(v).repeat(rep).build();
            b.add(s);
            Wire::C32(o)
        }
        _ => unreachable!(),
    };
    for op in &p.ops {
        w = apply(&mut b, w, op);
    }
    let sink = match w {
        Wire::U8(r, _) if p.vector_sink => {
            let sk = VectorSink::new(r, usize::MAX);
            let h = Arc::new(sk.hook());
            b.add(sk);
            SinkHandle::VU8(h)
        }
        Wire::F32(r) if p.vector_sink => {
            let sk = VectorSink::new(r, usize::MAX);
            let h = Arc::new(sk.hook());
            b.add(sk);
            SinkHandle::VF32(h)
        }
        Wire::C32(r) if p.vector_sink => {
            let sk = VectorSink::new(r, usize::MAX);
            let h = Arc::new(sk.hook());
            b.add(sk);
            SinkHandle::VC32(h)
        }
        Wire::U8(r, _) => {
            let got = Arc::new(Mutex::new(Vec::new()));
            b.add(CollectSink { src: r, got: got.clone() });
            SinkHandle::U8(got)
        }
        Wire::F32(r) => {
            let got = Arc::new(Mutex::new(Vec::new()));
            b.add(CollectSink { src: r, got: got.clone() });
            SinkHandle::F32(got)
        }
        Wire::C32(r) => {
            let got = Arc::new(Mutex::new(Vec::new()));
            b.add(CollectSink { src: r, got: got.clone() });
            SinkHandle::C32(got)
        }
        Wire::Pkt(r) => {
            let got = Arc::new(Mutex::new(Vec::new()));
            b.add(PktSink { src: r, got: got.clone() });
            SinkHandle::Pkt(got)
        }
    };
    rec::stream_size(0);
    BuiltGraph { blocks: b.blocks, sink, keep: Vec::new() }
}

/// The harness's own sequential executor: calls every block in turn until a
/// full pass produced no data event. Sound by construction (it looks at data
/// movement, not at verdicts). Runs the program on default-size streams.
pub fn reference(p: &Program) -> Result<Data, String> {
    let mut q = p.clone();
    q.stream_bytes = 0;
    let mut g = build(&q, false);
    let mut done = vec![false; g.blocks.len()];
    let mut passes = 0;
    loop {
        passes += 1;
        if passes > 2_000_000 {
            return Err("reference executor did not settle".into());
        }
        let before = rec::data_events();
        for (i, (b, _)) in g.blocks.iter_mut().enumerate() {
            if done[i] {
                continue;
            }
            match catch(|| b.work().map(|r| matches!(r, BlockRet::EOF))) {
                Ok(Ok(eof)) => {
                    if eof {
                        done[i] = true;
                    }
                }
                Ok(Err(e)) => return Err(format!("reference: block error {e}")),
                Err(p) => return Err(format!("reference: block panic {p}")),
            }
        }
        if rec::data_events() == before {
            break;
        }
    }
    Ok(g.sink.data())
}

// ------------------------------------------------------------ generator

fn gen_branch(rng: &mut Rng, ty: Ty, cap: usize) -> Vec<Op> {
    let mut v = Vec::new();
    let n = rng.range(0, 2);
    for _ in 0..n {
        v.push(match ty {
            Ty::Bits | Ty::Bytes => match rng.below(3) {
                0 => Op::XorConst(1),
                1 => Op::Nrzi,
                _ => Op::Delay(rng.range(0, std::cmp::max(1, cap / 8))),
            },
            _ => match rng.below(4) {
                0 => Op::AddConstF(rng.f32_unit()),
                1 => Op::MulConstF(rng.f32_unit() * 2.0),
                2 => Op::IirF(rng.f32_unit().abs()),
                _ => Op::Delay(rng.range(0, std::cmp::max(1, cap / 8))),
            },
        });
    }
    v
}

fn fft_ntaps(rng: &mut Rng, cap: usize) -> usize {
    loop {
        let ntaps = rng.range(1, 90);
        let mut n = 1;
        while n < ntaps {
            n <<= 1;
        }
        // block size = fft size - taps; tiny blocks (1 tap -> 1 sample per FFT) make a
        // run with injected delays take minutes without adding anything
        let nsamples = 2 * n - ntaps;
        if nsamples <= cap && nsamples >= 16 {
            return ntaps;
        }
    }
}

/// Generate a program. `max_ops` bounds the chain length.
pub fn gen_program(rng: &mut Rng, max_ops: usize, allow_fftfloat: bool) -> Program {
    let stream_bytes = *rng.pick(&[4096usize, 4096, 4096, 8192, 16384, 65536, 0]);
    let src_ty = *rng.pick(&[Ty::Bits, Ty::Bits, Ty::Bytes, Ty::F32, Ty::F32, Ty::C32]);
    let esz = match src_ty {
        Ty::Bits | Ty::Bytes => 1,
        Ty::F32 => 4,
        _ => 8,
    };
    let capb = if stream_bytes == 0 { 65536 } else { stream_bytes };
    let cap = capb / esz;
    let src_len = match rng.below(10) {
        0 => 0,
        1 => 1,
        2 => cap,
        3 => cap + 1,
        _ => rng.range(0, 5 * cap),
    };
    let repeat = *rng.pick(&[1u64, 1, 1, 2, 3]);
    let mut ops = Vec::new();
    let mut ty = src_ty;
    let nops = rng.range(0, max_ops);
    let mut expansion = 1.0f64;
    for _ in 0..nops {
        // capacity of the current wire in samples (streams all have the same byte size)
        let ccap = capb
            / match ty {
                Ty::Bits | Ty::Bytes => 1,
                Ty::F32 => 4,
                Ty::C32 => 8,
                Ty::Pkt => 1,
            };
        let op = match ty {
            Ty::Bits => match rng.below(10) {
                0 => Op::XorConst(1),
                1 => Op::Nrzi,
                2 => Op::Descramble,
                3 => Op::Delay(if rng.chance(1, 3) { rng.range(0, 2 * ccap) } else { rng.range(0, 70) }),
                4 => Op::Skip(rng.range(0, 70)),
                5 => Op::Resample(rng.range(1, 4), rng.range(1, 4)),
                6 => Op::CacTag(gen_bits(rng, 8)),
                7 => Op::Hdlc(2, 200),
                8 => Op::Diamond(gen_branch(rng, ty, ccap), gen_branch(rng, ty, ccap), 0),
                _ => Op::RtlDecode,
            },
            Ty::Bytes => match rng.below(6) {
                0 => Op::XorConst(rng.next() as u8),
                1 => Op::Delay(if rng.chance(1, 3) { rng.range(0, 2 * ccap) } else { rng.range(0, 70) }),
                2 => Op::Skip(rng.range(0, 70)),
                3 => Op::Resample(rng.range(1, 4), rng.range(1, 4)),
                4 => Op::Diamond(gen_branch(rng, ty, ccap), gen_branch(rng, ty, ccap), 0),
                _ => Op::RtlDecode,
            },
            Ty::F32 => match rng.below(12) {
                0 => Op::AddConstF(rng.f32_unit()),
                1 => Op::MulConstF(rng.f32_unit() * 2.0),
                2 => Op::Slicer,
                3 => Op::FirF((0..rng.range(1, 30)).map(|_| rng.f32_unit()).collect(), rng.range(1, 4)),
                4 if allow_fftfloat => Op::FftFiltF((0..fft_ntaps(rng, ccap / 2)).map(|_| rng.f32_unit()).collect()),
                5 => Op::IirF(rng.f32_unit().abs()),
                6 => Op::Hilbert(rng.range(1, 20) * 2 + 1),
                7 => Op::Delay(if rng.chance(1, 3) { rng.range(0, 2 * ccap) } else { rng.range(0, 70) }),
                8 => Op::Skip(rng.range(0, 70)),
                9 => Op::Resample(rng.range(1, 4), rng.range(1, 4)),
                10 => Op::Diamond(gen_branch(rng, ty, ccap), gen_branch(rng, ty, ccap), rng.below(2) as u8),
                _ => Op::AddSecond(if rng.chance(1, 2) { rng.range(0, 3 * ccap) } else { rng.range(0, 200) }, rng.next()),
            },
            Ty::C32 => match rng.below(5) {
                0 => Op::Mag2,
                1 => Op::QuadDemod(1.0),
                2 => Op::FftFiltC((0..fft_ntaps(rng, ccap)).map(|_| C32::new(rng.f32_unit(), rng.f32_unit())).collect()),
                3 => Op::MulConstC(C32::new(rng.f32_unit(), rng.f32_unit())),
                _ => Op::Resample(rng.range(1, 4), rng.range(1, 4)),
            },
            Ty::Pkt => Op::VecToStream,
        };
        // keep total volume bounded
        if let Op::Resample(i, d) = &op {
            expansion *= *i as f64 / *d as f64;
            if expansion > 6.0 {
                continue;
            }
        }
        ty = match (&op, ty) {
            (Op::Slicer, _) => Ty::Bits,
            (Op::RtlDecode, _) => Ty::C32,
            (Op::Hdlc(..), _) => Ty::Pkt,
            (Op::VecToStream, _) => Ty::Bytes,
            (Op::Hilbert(_), _) => Ty::C32,
            (Op::Mag2, _) | (Op::QuadDemod(_), _) => Ty::F32,
            (Op::Diamond(_, _, 1), Ty::F32) => Ty::C32,
            (Op::XorConst(v), Ty::Bits) if *v > 1 => Ty::Bytes,
            (_, t) => t,
        };
        ops.push(op);
    }
    Program {
        src_ty,
        src_len,
        src_seed: rng.next(),
        repeat,
        ops,
        stream_bytes,
        vector_sink: rng.chance(1, 4),
    }
}

/// A block that fails on its k-th call (C07).
pub struct FailAt<T: Copy + Send> {
    pub src: ReadStream<T>,
    pub dst: rustradio::stream::WriteStream<T>,
    pub k: u64,
    pub calls: u64,
    pub msg: String,
}
impl<T: Copy + Send> BlockName for FailAt<T> {
    fn block_name(&self) -> &str {
        "FailAt"
    }
}
impl<T: Copy + Send> BlockEOF for FailAt<T> {
    fn eof(&mut self) -> bool {
        self.src.eof()
    }
}
impl<T: Copy + Send> Block for FailAt<T> {
    fn work(&mut self) -> rustradio::Result<BlockRet> {
        self.calls += 1;
        if self.calls >= self.k {
            return Err(Error::msg(self.msg.clone()));
        }
        let (i, _t) = self.src.read_buf()?;
        if i.is_empty() {
            return Ok(BlockRet::WaitForStream(&self.src, 1));
        }
        let mut o = self.dst.write_buf()?;
        if o.is_empty() {
            return Ok(BlockRet::WaitForStream(&self.dst, 1));
        }
        let n = std::cmp::min(i.len(), o.len());
        o.slice()[..n].copy_from_slice(&i.slice()[..n]);
        o.produce(n, &[]);
        i.consume(n);
        Ok(BlockRet::Again)
    }
}
