//! C20: the documented receive chains decode every clean AX.25 frame.
//!
//! Transmitter models (harness code): AX.25/HDLC framer -> NRZI -> Bell-202
//! AFSK (continuous phase, 1200/2200 Hz) for the 1200-baud audio chain of
//! examples/ax25-1200-rx.rs, and framer -> G3RUH scrambler -> NRZI -> 2-FSK
//! (+-3 kHz) complex baseband for the 9600-baud chain of
//! examples/ax25-9600-rx.rs with the ZeroCrossing block as clock recovery.
use crate::drip::C32;
use crate::graphs::{PktSink, Probe};
use crate::hdlc::*;
use crate::rec;
use crate::util::*;
use rustradio::block::Block;
use rustradio::blocks::*;
use rustradio::graph::{Graph, GraphRunner};
use rustradio::mtgraph::MTGraph;
use rustradio::window::WindowType;
use serde_json::{Value, json};
use std::sync::{Arc, Mutex};

#[derive(Clone, Debug)]
pub struct Tx {
    pub baud9600: bool,
    pub samp_rate: u32,
    pub seed: u64,
    pub mt: bool,
    pub stream_bytes: usize,
}
impl Tx {
    fn to_json(&self) -> Value {
        json!({"chain": if self.baud9600 { "9600 G3RUH 2-FSK" } else { "1200 Bell-202 AFSK" }, "samp_rate": self.samp_rate, "tx_seed": self.seed.to_string(), "runner": if self.mt { "MTGraph" } else { "Graph" }, "stream_bytes": self.stream_bytes})
    }
    fn from_json(v: &Value) -> Option<Tx> {
        Some(Tx {
            baud9600: v["chain"].as_str()?.starts_with("9600"),
            samp_rate: v["samp_rate"].as_u64()? as u32,
            seed: v["tx_seed"].as_str()?.parse().ok()?,
            mt: v["runner"].as_str()? == "MTGraph",
            stream_bytes: v["stream_bytes"].as_u64()? as usize,
        })
    }
}

fn gen_payload(rng: &mut Rng) -> Vec<u8> {
    let len = rng.range(10, 300);
    match rng.below(3) {
        0 => {
            let mut v = Vec::with_capacity(len);
            while v.len() < len {
                let b = *rng.pick(&[0xffu8, 0x7e, 0x3f, 0x00, 0xfc]);
                for _ in 0..rng.range(1, 8) {
                    if v.len() < len {
                        v.push(b);
                    }
                }
            }
            v
        }
        _ => (0..len).map(|_| rng.next() as u8).collect(),
    }
}

/// Line bits of a transmission: preamble flags, frames separated by 2+ flags, trailing flags.
fn line_bits(rng: &mut Rng) -> (Vec<u8>, Vec<Vec<u8>>) {
    let nframes = rng.range(1, 8);
    let mut bits = Vec::new();
    for _ in 0..rng.range(20, 100) {
        bits.extend(FLAG);
    }
    let mut payloads = Vec::new();
    for _ in 0..nframes {
        let p = gen_payload(rng);
        bits.extend(body_bits(&p, true));
        for _ in 0..rng.range(2, 6) {
            bits.extend(FLAG);
        }
        payloads.push(p);
    }
    for _ in 0..8 {
        bits.extend(FLAG);
    }
    (bits, payloads)
}

/// NRZI-S: a zero toggles the level, a one keeps it.
fn nrzi_encode(bits: &[u8]) -> Vec<u8> {
    let mut level = 0u8;
    bits.iter()
        .map(|b| {
            if *b == 0 {
                level ^= 1;
            }
            level
        })
        .collect()
}

/// G3RUH scrambler: s[n] = d[n] ^ s[n-12] ^ s[n-17].
fn scramble(bits: &[u8]) -> Vec<u8> {
    let mut s: Vec<u8> = Vec::with_capacity(bits.len());
    for (n, d) in bits.iter().enumerate() {
        let a = if n >= 12 { s[n - 12] } else { 0 };
        let b = if n >= 17 { s[n - 17] } else { 0 };
        s.push(d ^ a ^ b);
    }
    s
}

fn afsk(rng: &mut Rng, levels: &[u8], fs: f64) -> Vec<f32> {
    let baud = 1200.0;
    let mut out = Vec::new();
    // random-length silence, random start phase, random sub-sample symbol offset
    for _ in 0..rng.range(0, 3000) {
        out.push(0.0);
    }
    let mut phase = rng.f64_unit() * std::f64::consts::PI;
    let mut t = rng.f64_unit().abs(); // fractional sample offset of the first symbol edge
    let amp = 0.5;
    for l in levels {
        let f = if *l == 1 { 2200.0 } else { 1200.0 };
        t += fs / baud;
        while t >= 1.0 {
            phase += 2.0 * std::f64::consts::PI * f / fs;
            if phase > std::f64::consts::PI {
                phase -= 2.0 * std::f64::consts::PI;
            }
            out.push((amp * phase.sin()) as f32);
            t -= 1.0;
        }
    }
    // tail: enough to flush the FFT filter block and the filter delays
    let tail = 3 * 4096 + 2000;
    for _ in 0..tail {
        phase += 2.0 * std::f64::consts::PI * 1200.0 / fs;
        out.push((amp * phase.sin()) as f32);
    }
    out
}

fn fsk(rng: &mut Rng, levels: &[u8], fs: f64) -> Vec<C32> {
    let baud = 9600.0;
    let dev = 3000.0;
    let mut out = Vec::new();
    for _ in 0..rng.range(0, 3000) {
        out.push(C32::new(0.0, 0.0));
    }
    let mut phase = rng.f64_unit() * std::f64::consts::PI;
    let mut t = rng.f64_unit().abs();
    for l in levels {
        let f = if *l == 1 { dev } else { -dev };
        t += fs / baud;
        while t >= 1.0 {
            phase += 2.0 * std::f64::consts::PI * f / fs;
            if phase > std::f64::consts::PI {
                phase -= 2.0 * std::f64::consts::PI;
            } else if phase < -std::f64::consts::PI {
                phase += 2.0 * std::f64::consts::PI;
            }
            out.push(C32::new(phase.cos() as f32, phase.sin() as f32));
            t -= 1.0;
        }
    }
    let tail = 3 * 8192 + 4000;
    for _ in 0..tail {
        phase += 2.0 * std::f64::consts::PI * dev / fs;
        out.push(C32::new(phase.cos() as f32, phase.sin() as f32));
    }
    out
}

struct Chain {
    blocks: Vec<Box<dyn Block + Send>>,
    got: Arc<Mutex<Vec<Vec<u8>>>>,
}

macro_rules! add {
    ($v:ident, $cons:expr) => {{
        let (b, prev) = $cons;
        $v.push(Probe::wrap(Box::new(b)).0);
        prev
    }};
}

/// The audio path of examples/ax25-1200-rx.rs.
fn chain_1200(audio: Vec<f32>, samp_rate: f32) -> Chain {
    let mut v: Vec<Box<dyn Block + Send>> = Vec::new();
    let prev = add![v, VectorSource::new(audio)];
    let prev = add![v, Hilbert::new(prev, 65, &WindowType::Hamming)];
    let prev = add![v, QuadratureDemod::new(prev, 1.0)];
    let taps = rustradio::fir::low_pass(samp_rate, 1100.0, 100.0, &WindowType::Hamming);
    let prev = add![v, FftFilterFloat::new(prev, &taps)];
    let center = 1200.0 + (2200.0 - 1200.0) / 2.0;
    let prev = add![v, add_const(prev, -center * 2.0 * std::f32::consts::PI / samp_rate)];
    let prev = add![
        v,
        SymbolSync::new(
            prev,
            samp_rate / 1200.0,
            0.5,
            Box::new(rustradio::symbol_sync::TedZeroCrossing::new()),
            Box::new(rustradio::iir_filter::IirFilter::new(&[0.5, 0.5])),
        )
    ];
    let prev = add![v, BinarySlicer::new(prev)];
    let prev = add![v, NrziDecode::new(prev)];
    let prev = add![v, HdlcDeframer::new(prev, 10, 1500)];
    let got = Arc::new(Mutex::new(Vec::new()));
    v.push(Box::new(PktSink::new(prev, got.clone())));
    Chain { blocks: v, got }
}

/// The I/Q path of examples/ax25-9600-rx.rs with ZeroCrossing as clock recovery.
fn chain_9600(iq: Vec<C32>, samp_rate: f32) -> Chain {
    let mut v: Vec<Box<dyn Block + Send>> = Vec::new();
    let prev = add![v, VectorSource::new(iq)];
    let taps = rustradio::fir::low_pass_complex(samp_rate, 12_500.0, 100.0, &WindowType::Hamming);
    let prev = add![v, FftFilter::new(prev, &taps)];
    let new_rate = 50_000.0f32;
    let prev = add![v, RationalResampler::new(prev, new_rate as usize, samp_rate as usize).unwrap()];
    let prev = add![v, QuadratureDemod::new(prev, 1.0)];
    let prev = add![v, ZeroCrossing::new(prev, new_rate / 9600.0, 0.5)];
    let prev = add![v, BinarySlicer::new(prev)];
    let prev = add![v, NrziDecode::new(prev)];
    let prev = add![v, Descrambler::new(prev, 0x21, 0, 16)];
    let prev = add![v, HdlcDeframer::new(prev, 10, 1500)];
    let got = Arc::new(Mutex::new(Vec::new()));
    v.push(Box::new(PktSink::new(prev, got.clone())));
    Chain { blocks: v, got }
}

pub struct Outcome {
    pub sent: Vec<Vec<u8>>,
    pub got: Vec<Vec<u8>>,
    pub error: Option<String>,
    pub samples: usize,
}

pub fn run_tx(tx: &Tx) -> Outcome {
    let mut rng = Rng::new(tx.seed);
    let (bits, payloads) = line_bits(&mut rng);
    rec::stream_size(tx.stream_bytes);
    let (chain, samples) = if tx.baud9600 {
        let levels = nrzi_encode(&scramble(&bits));
        let iq = fsk(&mut rng, &levels, tx.samp_rate as f64);
        let n = iq.len();
        (chain_9600(iq, tx.samp_rate as f32), n)
    } else {
        let levels = nrzi_encode(&bits);
        let audio = afsk(&mut rng, &levels, tx.samp_rate as f64);
        let n = audio.len();
        (chain_1200(audio, tx.samp_rate as f32), n)
    };
    rec::stream_size(0);
    let got = chain.got.clone();
    let res = catch(|| {
        if tx.mt {
            let mut g = MTGraph::new();
            for b in chain.blocks {
                g.add(b);
            }
            g.run().map_err(|e| format!("{e}"))
        } else {
            let mut g = Graph::new();
            for b in chain.blocks {
                g.add(b);
            }
            g.run().map_err(|e| format!("{e}"))
        }
    });
    let error = match res {
        Ok(Ok(())) => None,
        Ok(Err(e)) => Some(format!("run() returned Err({e})")),
        Err(p) => Some(format!("run() panicked: {p}")),
    };
    let got = got.lock().unwrap().clone();
    Outcome { sent: payloads, got, error, samples }
}

fn judge(tx: &Tx, o: &Outcome) -> Option<(String, String)> {
    let chain = if tx.baud9600 { "9600" } else { "1200" };
    if let Some(e) = &o.error {
        return Some((format!("{chain}|run-failed"), e.clone()));
    }
    if o.got == o.sent {
        return None;
    }
    let missing = o.sent.iter().filter(|p| !o.got.contains(p)).count();
    let extra = o.got.iter().filter(|p| !o.sent.contains(p)).count();
    let class = if extra > 0 {
        "delivered-frame-that-was-not-sent"
    } else if missing > 0 {
        "frame-not-delivered"
    } else if o.got.len() > o.sent.len() {
        "frame-delivered-twice"
    } else {
        "frames-out-of-order"
    };
    Some((
        format!("{chain}|{class}"),
        format!("sent {} frames (lengths {:?}), delivered {} (lengths {:?}); missing {missing}, unexpected {extra}", o.sent.len(), o.sent.iter().map(|p| p.len()).collect::<Vec<_>>(), o.got.len(), o.got.iter().map(|p| p.len()).collect::<Vec<_>>()),
    ))
}

pub fn main(opts: &Opts) -> Report {
    let mut rep = Report::new("C20");
    rep.rule = "per transmission: 1-8 AX.25 frames with random and stuffing-heavy payloads of 10..300 bytes, 2-6 flags between frames, 20-100 preamble flags after 0..3000 samples of silence, random start phase and sub-sample symbol offset, modulated by the harness's transmitter models (Bell-202 AFSK at 44100/48000/50000 S/s; G3RUH-scrambled NRZI 2-FSK +-3 kHz at 50000/100000 S/s) and fed through the block chain of examples/ax25-1200-rx.rs (audio path) resp. examples/ax25-9600-rx.rs with ZeroCrossing clock recovery, on Graph and on MTGraph, default and 64-page streams; the popped packets must equal the sent payloads, once, in order, and be identical on both runners; distinct = transmission seed x (chain, rate, runner, stream size)".into();
    rep.assume("the 9600 chain's clock recovery is the ZeroCrossing block, as the property states; noiseless channel");
    rec::install(false);
    if let Some(path) = &opts.replay {
        let v: Value = serde_json::from_str(&std::fs::read_to_string(path).expect("replay file")).expect("json");
        let tx = Tx::from_json(&v["replay"]).expect("tx");
        rep.eval();
        let o = run_tx(&tx);
        if let Some((class, d)) = judge(&tx, &o) {
            rep.violation(format!("C20|{class}"), d, tx.to_json());
        }
        return rep;
    }
    let mut rng = Rng::new(opts.shard_seed() ^ 0xC20);
    let n = opts.budget(16 * 24, 16 * 1500);
    for k in 0..n {
        let baud9600 = k % 2 == 1;
        let samp_rate = if baud9600 { *rng.pick(&[50_000u32, 100_000]) } else { *rng.pick(&[44_100u32, 48_000, 50_000]) };
        let seed = rng.next();
        let stream_bytes = if rng.chance(1, 2) { 0 } else { 64 * rec::PAGE };
        let mut results = Vec::new();
        for mt in [false, true] {
            let tx = Tx { baud9600, samp_rate, seed, mt, stream_bytes };
            rep.eval();
            rep.distinct(fnv_str(&format!("{tx:?}")));
            let o = run_tx(&tx);
            rep.count("transmissions", 1);
            rep.count("frames_sent", o.sent.len() as u64);
            rep.count("frames_delivered", o.got.len() as u64);
            rep.count("samples_processed", o.samples as u64);
            rep.set("rates_and_runners", format!("{} {} S/s {}", if baud9600 { "9600" } else { "1200" }, samp_rate, if mt { "MTGraph" } else { "Graph" }));
            if rep.want_sample() {
                rep.sample(json!({"tx": tx.to_json(), "frames_sent": o.sent.len(), "frames_delivered": o.got.len(), "samples": o.samples}));
            }
            if let Some((class, d)) = judge(&tx, &o) {
                rep.violation(format!("C20|{class}|{}", if mt { "MTGraph" } else { "Graph" }), format!("{d}; {}", tx.to_json()), tx.to_json());
            }
            results.push(o.got);
        }
        if results[0] != results[1] {
            rep.violation("C20|runners-disagree", format!("Graph delivered {} packets, MTGraph {} for the same transmission (seed {seed})", results[0].len(), results[1].len()), json!({"tx_seed": seed.to_string()}));
        }
    }
    rep
}
