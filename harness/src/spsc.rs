//! C03: one producer thread and one consumer thread share a stream.
//!
//! Monitors: (a) consumer-side sequence oracle on unique ids (thread-local),
//! (b) window-overlap and conservation monitors over the recorded event log
//! (release build), (c) the same workload under ThreadSanitizer with the
//! recorder off (tsan build; the driver counts sanitizer reports).
use crate::rec;
use crate::ring::{Elem, Ring, as_bytes};
use crate::util::*;
use rustradio::stream::StreamWait;
use rustradio::verif::Ev;
use serde_json::{Value, json};
use std::sync::Arc;
use std::sync::atomic::{AtomicBool, AtomicU64, Ordering};

#[derive(Clone, Debug)]
pub struct Case {
    pub elem: String,
    pub pages: usize,
    pub path: String, // raw | stream
    pub total: usize,
    pub seed: u64,
    pub delays: bool,
}
impl Case {
    fn to_json(&self) -> Value {
        json!({"elem": self.elem, "pages": self.pages, "path": self.path, "total": self.total, "case_seed": self.seed.to_string(), "delays": self.delays})
    }
    fn from_json(v: &Value) -> Option<Case> {
        Some(Case {
            elem: v["elem"].as_str()?.into(),
            pages: v["pages"].as_u64()? as usize,
            path: v["path"].as_str()?.into(),
            total: v["total"].as_u64()? as usize,
            seed: v["case_seed"].as_str()?.parse().ok()?,
            delays: v["delays"].as_bool()?,
        })
    }
}

pub struct Outcome {
    pub findings: Vec<(String, String)>,
    pub transferred: usize,
    pub interleaving: u64,
    pub both_live_instants: u64,
    pub wraps: u64,
    pub waits_short: u64,
    pub events: usize,
}

fn jitter(rng: &mut Rng, tsan: bool) {
    match rng.below(if tsan { 12 } else { 40 }) {
        0 => std::thread::yield_now(),
        1 => {
            for _ in 0..rng.below(200) {
                std::hint::spin_loop();
            }
        }
        2 if tsan => std::thread::sleep(std::time::Duration::from_micros(rng.below(50) as u64)),
        _ => {}
    }
}

fn run_t<T: Elem>(c: &Case, tsan: bool) -> Outcome {
    let size = c.pages * rec::PAGE;
    let ring: Ring<T> = if c.path == "raw" { Ring::raw(size).expect("ring") } else { Ring::stream(size) };
    let cap = ring.total_size();
    // Split into two ends that can be moved to threads.
    enum Prod<T: Copy> {
        Raw(Arc<rustradio::circular_buffer::Buffer<T>>),
        S(rustradio::stream::WriteStream<T>),
    }
    enum Cons<T: Copy> {
        Raw(Arc<rustradio::circular_buffer::Buffer<T>>),
        S(rustradio::stream::ReadStream<T>),
    }
    let (p, q) = match ring {
        Ring::Raw(b) => (Prod::Raw(b.clone()), Cons::Raw(b)),
        Ring::Stream(w, r) => (Prod::S(w), Cons::S(r)),
    };
    let total = c.total;
    // Consecutive empty-handed iterations of each side. Both sides empty-handed
    // at once (writer sees no space, reader sees no data) for many iterations
    // cannot happen in a correct ring: it is a logical deadlock, not slowness.
    let prod_idle = Arc::new(AtomicU64::new(0));
    let cons_idle = Arc::new(AtomicU64::new(0));
    let (pi2, ci2) = (prod_idle.clone(), cons_idle.clone());
    let (pi3, ci3) = (prod_idle.clone(), cons_idle.clone());
    let tags_sent = Arc::new(AtomicU64::new(0));
    let tags_seen = Arc::new(AtomicU64::new(0));
    let (tags_sent2, tags_seen2) = (tags_sent.clone(), tags_seen.clone());
    let prod_done = Arc::new(AtomicBool::new(false));
    let (pd2, pd3) = (prod_done.clone(), prod_done.clone());
    let done = Arc::new(AtomicBool::new(false));
    let waits_short = Arc::new(AtomicU64::new(0));
    let seed = c.seed;
    let d2 = done.clone();
    let ws2 = waits_short.clone();
    let producer = std::thread::Builder::new()
        .name("c03-producer".into())
        .spawn(move || -> Result<(), String> {
            let mut rng = Rng::new(hmix(seed, 1));
            let mut next: u64 = 0;
            while (next as usize) < total {
                if d2.load(Ordering::SeqCst) {
                    return Err("stopped: the consumer gave up".into());
                }
                jitter(&mut rng, tsan);
                let mut wb = match &p {
                    Prod::Raw(b) => b.clone().write_buf(),
                    Prod::S(w) => w.write_buf(),
                }
                .map_err(|e| format!("write_buf failed during the legal protocol: {e}"))?;
                let len = wb.len();
                if len > cap {
                    return Err(format!("write window of {len} > capacity {cap}"));
                }
                if len == 0 {
                    drop(wb);
                    let mine = pi2.fetch_add(1, Ordering::SeqCst) + 1;
                    if mine > 25 && ci2.load(Ordering::SeqCst) > 25 {
                        return Err("deadlock: the writer is offered no space while the reader is offered no data (25+ consecutive waits on both sides)".into());
                    }
                    let need = match rng.below(4) {
                        0 => 1,
                        1 => cap,
                        _ => rng.range(1, cap),
                    };
                    let never = match &p {
                        Prod::Raw(b) => {
                            let f = b.wait_for_write(need);
                            if f < need {
                                ws2.fetch_add(1, Ordering::Relaxed);
                            }
                            false
                        }
                        Prod::S(w) => w.wait(need),
                    };
                    if never {
                        return Err("WriteStream::wait said the reader is gone while it is alive".into());
                    }
                    continue;
                }
                pi2.store(0, Ordering::SeqCst);
                let k = match rng.below(8) {
                    0 => len,
                    1 => 1,
                    2 => 0,
                    _ => rng.range(0, len),
                }
                .min(total - next as usize);
                {
                    let s = wb.slice();
                    for i in 0..k {
                        s[i] = T::from_id(next + i as u64);
                    }
                    // scribble beyond k inside the window: must never become visible
                    if k < len && rng.chance(1, 4) {
                        s[k] = T::from_id(0xdead_beef_0000 + next);
                    }
                }
                jitter(&mut rng, tsan);
                let n = if rng.chance(3, 4) { k } else { rng.range(0, k) };
                // a third of the commits carry tags keyed by the sample id they sit on
                let mut tags = Vec::new();
                if n > 0 && rng.chance(1, 3) {
                    for _ in 0..rng.range(1, 3) {
                        let pos = rng.below(n);
                        tags.push(rustradio::stream::Tag::new(pos, format!("t{}", next + pos as u64), rustradio::stream::TagValue::U64(next + pos as u64)));
                    }
                    tags_sent2.fetch_add(tags.len() as u64, Ordering::Relaxed);
                }
                wb.produce(n, &tags);
                next += n as u64;
                if rng.chance(1, 16) {
                    let f = match &p {
                        Prod::Raw(b) => b.free(),
                        Prod::S(w) => w.free(),
                    };
                    if f > cap {
                        return Err(format!("free() = {f} > capacity {cap}"));
                    }
                }
            }
            pd2.store(true, Ordering::SeqCst);
            drop(p);
            Ok(())
        })
        .unwrap();
    let ws3 = waits_short.clone();
    let consumer = std::thread::Builder::new()
        .name("c03-consumer".into())
        .spawn(move || -> Result<usize, String> {
            let mut rng = Rng::new(hmix(seed, 2));
            let mut expect: u64 = 0;
            let mut idle = 0u64;
            loop {
                jitter(&mut rng, tsan);
                let (rb, wtags) = match &q {
                    Cons::Raw(b) => b.clone().read_buf(),
                    Cons::S(r) => r.read_buf(),
                }
                .map_err(|e| format!("read_buf failed during the legal protocol: {e}"))?;
                let len = rb.len();
                for t in &wtags {
                    if t.pos() >= len || t.key() != format!("t{}", expect + t.pos() as u64) {
                        return Err(format!("tag {:?} reported at window position {} where sample {} sits", t.key(), t.pos(), expect + t.pos() as u64));
                    }
                }
                if len > cap {
                    return Err(format!("read window of {len} > capacity {cap}"));
                }
                if len == 0 {
                    drop(rb);
                    if expect as usize >= total {
                        return Ok(expect as usize);
                    }
                    let mine = ci3.fetch_add(1, Ordering::SeqCst) + 1;
                    if mine > 25 && pi3.load(Ordering::SeqCst) > 25 {
                        return Err(format!("deadlock: the reader is offered no data while the writer is offered no space, after {expect} of {total} samples"));
                    }
                    let need = match rng.below(4) {
                        0 => 1,
                        1 => cap,
                        _ => rng.range(1, cap),
                    };
                    let never = match &q {
                        Cons::Raw(b) => {
                            let u = b.wait_for_read(need);
                            if u < need {
                                ws3.fetch_add(1, Ordering::Relaxed);
                            }
                            false
                        }
                        Cons::S(r) => r.wait(need),
                    };
                    if never {
                        // writer gone and fewer than `need` left: drain what is there
                        let (rb, _) = match &q {
                            Cons::Raw(b) => b.clone().read_buf(),
                            Cons::S(r) => r.read_buf(),
                        }
                        .map_err(|e| format!("{e}"))?;
                        let s = rb.slice();
                        for (i, v) in s.iter().enumerate() {
                            let want = T::from_id(expect + i as u64);
                            if as_bytes(std::slice::from_ref(v)) != as_bytes(std::slice::from_ref(&want)) {
                                return Err(format!("sample {} differs (final drain)", expect + i as u64));
                            }
                        }
                        let n = s.len();
                        rb.consume(n);
                        expect += n as u64;
                        if (expect as usize) < total {
                            return Err(format!("told 'never' after {expect} of {total} committed samples"));
                        }
                        return Ok(expect as usize);
                    }
                    idle += 1;
                    if idle > 5 && pd3.load(Ordering::SeqCst) {
                        return Err(format!("the producer committed all {total} samples and finished, the reader is offered nothing after {expect}"));
                    }
                    if idle > 3000 {
                        return Err("consumer made no progress in 3000 waits".into());
                    }
                    continue;
                }
                idle = 0;
                ci3.store(0, Ordering::SeqCst);
                // A wait for no more than what is readable right now must never
                // answer "can never be satisfied", whatever the ring position.
                if let Cons::S(r) = &q {
                    if rng.chance(1, 6) {
                        let k = rng.range(1, len);
                        if r.wait(k) {
                            return Err(format!("wait({k}) said 'never' while {len} samples were readable"));
                        }
                    }
                }
                // verify the whole window
                let check = |from: u64, s: &[T]| -> Result<(), String> {
                    for (i, v) in s.iter().enumerate() {
                        let want = T::from_id(from + i as u64);
                        if as_bytes(std::slice::from_ref(v)) != as_bytes(std::slice::from_ref(&want)) {
                            return Err(format!(
                                "consumer saw a wrong sample at stream position {} (window index {i} of {}): torn, stale, duplicated or skipped data",
                                from + i as u64,
                                s.len()
                            ));
                        }
                    }
                    Ok(())
                };
                check(expect, rb.slice())?;
                if rng.chance(1, 6) {
                    // hold the window while the producer keeps going, then re-verify
                    jitter(&mut rng, tsan);
                    std::thread::yield_now();
                    check(expect, rb.slice()).map_err(|e| format!("held read window changed: {e}"))?;
                }
                let m = match rng.below(8) {
                    0 => len,
                    1 => 1,
                    2 => 0,
                    _ => rng.range(0, len),
                };
                tags_seen2.fetch_add(wtags.iter().filter(|t| t.pos() < m).count() as u64, Ordering::Relaxed);
                rb.consume(m);
                expect += m as u64;
            }
        })
        .unwrap();
    let cr = consumer.join();
    done.store(true, Ordering::SeqCst);
    let pr = producer.join();
    let mut findings = Vec::new();
    let mut transferred = 0;
    match pr {
        Ok(Ok(())) => {}
        Ok(Err(e)) if e.starts_with("stopped:") => {}
        Ok(Err(e)) => findings.push((if e.starts_with("deadlock") { "deadlock".to_string() } else { "producer-protocol-error".to_string() }, e)),
        Err(p) => findings.push((format!("producer-panic|{}", sig_of_msg(&panic_msg(&p))), panic_msg(&p))),
    }
    match cr {
        Ok(Ok(n)) => {
            transferred = n;
            if n != total {
                findings.push(("count-mismatch".into(), format!("consumer received {n} of {total}")));
            }
            let (sent, seen) = (tags_sent.load(Ordering::SeqCst), tags_seen.load(Ordering::SeqCst));
            if seen > sent {
                findings.push(("tags-duplicated".into(), format!("{sent} tags committed, {seen} seen on consumed samples")));
            }
        }
        Ok(Err(e)) => findings.push((if e.starts_with("deadlock") { "deadlock".to_string() } else { "sequence-oracle".to_string() }, e)),
        Err(p) => findings.push((format!("consumer-panic|{}", sig_of_msg(&panic_msg(&p))), panic_msg(&p))),
    }
    // Offline monitors over the event log.
    let log = rec::take();
    let mut interleaving = 0xcbf29ce484222325u64;
    let mut both_live = 0u64;
    let mut wraps = 0u64;
    if !tsan {
        let mut rwin: Option<(usize, usize)> = None;
        let mut wwin: Option<(usize, usize)> = None;
        let (mut produced, mut consumed) = (0u64, 0u64);
        let overlap = |a: (usize, usize), b: (usize, usize)| -> bool {
            // windows as [start, end) with start < cap, end <= start + cap; compare modulo cap
            if a.0 == a.1 || b.0 == b.1 {
                return false;
            }
            for sa in [0isize, cap as isize, -(cap as isize)] {
                let (a0, a1) = (a.0 as isize + sa, a.1 as isize + sa);
                if a0 < b.1 as isize && (b.0 as isize) < a1 {
                    return true;
                }
            }
            false
        };
        for r in &log {
            match r.ev {
                Ev::ReadOpen { start, end, .. } => {
                    interleaving = hmix(interleaving, 1);
                    rwin = Some((start, end));
                    if let Some(w) = wwin {
                        both_live += 1;
                        if overlap(w, (start, end)) {
                            findings.push(("window-overlap".into(), format!("read window [{start},{end}) handed out while write window [{},{}) is live (capacity {cap})", w.0, w.1)));
                            break;
                        }
                    }
                }
                Ev::WriteOpen { start, end, .. } => {
                    interleaving = hmix(interleaving, 2);
                    wwin = Some((start, end));
                    if let Some(rw) = rwin {
                        both_live += 1;
                        if overlap((start, end), rw) {
                            findings.push(("window-overlap".into(), format!("write window [{start},{end}) handed out while read window [{},{}) is live (capacity {cap})", rw.0, rw.1)));
                            break;
                        }
                    }
                }
                Ev::Produce { n, rpos, wpos, used, .. } => {
                    interleaving = hmix(interleaving, 3);
                    wwin = None;
                    produced += n as u64;
                    if n > 0 && wpos < n && wpos != 0 || (n > 0 && wpos == 0) {
                        wraps += 1;
                    }
                    if used as u64 != produced - consumed || used > cap || (wpos + cap - rpos) % cap != used % cap {
                        findings.push(("conservation".into(), format!("after produce({n}): used {used}, produced-consumed {}, rpos {rpos} wpos {wpos} cap {cap}", produced - consumed)));
                        break;
                    }
                }
                Ev::Consume { n, rpos, wpos, used, .. } => {
                    interleaving = hmix(interleaving, 4);
                    rwin = None;
                    consumed += n as u64;
                    if consumed > produced || used as u64 != produced - consumed || (wpos + cap - rpos) % cap != used % cap {
                        findings.push(("conservation".into(), format!("after consume({n}): used {used}, produced-consumed {}, rpos {rpos} wpos {wpos} cap {cap}", produced as i64 - consumed as i64)));
                        break;
                    }
                }
                Ev::WindowDrop { write, .. } => {
                    // Ends a window that was never committed (produce(0) returns
                    // before taking the lock and emits no event). For committed
                    // windows this arrives after Produce/Consume and is a no-op.
                    if write {
                        wwin = None;
                    } else {
                        rwin = None;
                    }
                }
                _ => {}
            }
        }
    }
    Outcome {
        findings,
        transferred,
        interleaving,
        both_live_instants: both_live,
        wraps,
        waits_short: waits_short.load(Ordering::Relaxed),
        events: log.len(),
    }
}

pub fn run_case(c: &Case, tsan: bool) -> Outcome {
    if tsan {
        rec::uninstall();
    } else {
        rec::install(true);
        rec::set_record_yields(false);
        rec::clear();
        if c.delays {
            crate::runners::install_delays(c.seed | 1);
        }
    }
    let o = match c.elem.as_str() {
        "u32" => run_t::<u32>(c, tsan),
        "u64" => run_t::<u64>(c, tsan),
        _ => run_t::<[u8; 16]>(c, tsan),
    };
    if !tsan {
        crate::runners::remove_delays();
    }
    o
}

pub fn main(opts: &Opts) -> Report {
    let mut rep = Report::new("C03");
    let tsan = opts.val("variant").as_deref() == Some("tsan");
    rep.rule = "per run: a producer thread and a consumer thread on one 1-2 page ring of u32/u64/[u8;16] (raw buffer or stream pair), seeded random window/commit/consume sizes incl. 0 and full capacity, waits with need above what will arrive (time-outs), windows held across the other side's operations, seeded delays at yield hooks; monitors: consumer-side id sequence, window-overlap and conservation over the recorded log (release build) and ThreadSanitizer on the same workload without recorder (tsan build); distinct = interleaving signature (hash of the global order of open/commit/consume events)".into();
    rep.assume("TSan sees accesses by virtual address and cannot relate the two mappings of one byte; the logical window-overlap monitor covers that part");
    if let Some(path) = &opts.replay {
        let v: Value = serde_json::from_str(&std::fs::read_to_string(path).expect("replay file")).expect("json");
        let c = Case::from_json(&v["replay"]).expect("case");
        // free-running threads: re-run the same seed up to 50 times
        let mut hits = 0;
        for _ in 0..50 {
            rep.eval();
            let o = run_case(&c, tsan);
            if !o.findings.is_empty() {
                hits += 1;
                for (class, d) in o.findings {
                    rep.violation(format!("C03|{}|{class}", c.path), d, c.to_json());
                }
            }
        }
        rep.count("replay_recurrences_of_50", hits);
        return rep;
    }
    let mut rng = Rng::new(opts.shard_seed() ^ 0xC03);
    let runs = if tsan { opts.budget(16 * 6, 16 * 150) } else { opts.budget(16 * 40, 16 * 2500) };
    for k in 0..runs {
        let c = Case {
            elem: ["u32", "u64", "[u8;16]"][(k % 3) as usize].into(),
            pages: if rng.chance(2, 3) { 1 } else { 2 },
            path: if rng.chance(1, 2) { "raw".into() } else { "stream".into() },
            total: if tsan { rng.range(2_000, 30_000) } else { rng.range(5_000, 120_000) },
            seed: rng.next(),
            delays: !tsan && rng.chance(1, 2),
        };
        rep.eval();
        let o = run_case(&c, tsan);
        rep.count(if tsan { "tsan_runs" } else { "rel_runs" }, 1);
        rep.count("samples_transferred", o.transferred as u64);
        rep.count("events", o.events as u64);
        rep.count("instants_with_read_and_write_window_live", o.both_live_instants);
        rep.count("wrap_crossings", o.wraps);
        rep.count("waits_that_returned_short", o.waits_short);
        if !tsan {
            rep.distinct(o.interleaving);
        } else {
            rep.distinct(hmix(c.seed, 0x75a));
        }
        rep.set("element_types", c.elem.clone());
        rep.set("paths", c.path.clone());
        if rep.want_sample() {
            rep.sample(json!({"case": c.to_json(), "events": o.events, "both_windows_live": o.both_live_instants, "wraps": o.wraps}));
        }
        for (class, d) in o.findings {
            rep.violation(format!("C03|{}|{class}", c.path), format!("{d}; case {}", c.to_json()), c.to_json());
        }
    }
    rep
}
