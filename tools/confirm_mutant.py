#!/usr/bin/env python3
"""dev helper: confirm a sub-agent's seeded change in the scratch worktree /tmp/wt/self and archive it.
usage: confirm_mutant.py <agent-dir> <seed-id> <property> "<needs>" [checks to run ...]
The scratch worktree is not kept: create it first with `git -C /repo worktree add --detach /tmp/wt/self HEAD`
and remove it (git worktree remove --force) when the round is over."""
import json, os, shutil, subprocess, sys, glob
src, sid, prop, needs = sys.argv[1:5]
checks = sys.argv[5:] or [prop]
W = '/tmp/wt/self'
env = dict(os.environ, CARGO_TARGET_DIR=W + '/target', CARGO_NET_OFFLINE='true')
def run(cmd, cwd=W):
    p = subprocess.run(cmd, cwd=cwd, env=env, capture_output=True, text=True)
    return p.returncode, (p.stdout + p.stderr)
subprocess.run(['git', 'checkout', '--', '.'], cwd=W); subprocess.run(['git', 'clean', '-fdq', 'tests', 'examples'], cwd=W)
patch = os.path.join(src, 'patch.diff')
demos = [f for f in glob.glob(os.path.join(src, 'tests', 'demo_*.rs'))]
rc, out = run(['git', 'apply', '--check', patch]); assert rc == 0, out
meta = dict(seed_id=sid, property=prop, needs_to_manifest=needs, source="independent sub-agent given only the property text and a scratch worktree")
run(['git', 'apply', patch])
meta['builds_plain'] = run(['cargo', 'build', '--offline'])[0] == 0
meta['builds_with_hooks'] = run(['cargo', 'build', '--offline', '--features', 'verif'])[0] == 0
rc, out = run(['cargo', 'test', '--workspace', '--no-fail-fast', '--offline'])
meta['existing_tests_with_change'] = [l for l in out.splitlines() if l.startswith('test result')][:1]
meta['existing_tests_pass'] = rc == 0
demo_res = {}
for d in demos:
    shutil.copy(d, os.path.join(W, 'tests', os.path.basename(d)))
    name = os.path.basename(d)[:-3]
    rc, out = run(['cargo', 'test', '--offline', '--test', name])
    demo_res[name] = dict(with_change_fails=rc != 0, with_change=[l for l in out.splitlines() if l.startswith('test result')][:1])
run(['git', 'apply', '-R', patch])
for d in demos:
    name = os.path.basename(d)[:-3]
    rc, out = run(['cargo', 'test', '--offline', '--test', name])
    demo_res[name].update(without_change_passes=rc == 0, without_change=[l for l in out.splitlines() if l.startswith('test result')][:1])
meta['demonstration'] = demo_res
subprocess.run(['git', 'checkout', '--', '.'], cwd=W); subprocess.run(['git', 'clean', '-fdq', 'tests'], cwd=W)
# run my checks against it
p = subprocess.run(['/verif/tools/mutant.sh', patch] + checks, capture_output=True, text=True)
meta['checks_run'] = p.stdout.strip().splitlines()
meta['detected_by'] = [l.split()[0] for l in p.stdout.splitlines() if ' rc=1 ' in l]
dst = f'/verif/seeded/{sid}'
os.makedirs(dst, exist_ok=True)
shutil.copy(patch, dst + '/patch.diff')
for d in demos: shutil.copy(d, dst)
if os.path.exists(os.path.join(src, 'NOTES.md')):
    txt = open(os.path.join(src, 'NOTES.md')).read()
    open(dst + '/NOTES.md', 'w').write(txt[:6000])
json.dump(meta, open(dst + '/meta.json', 'w'), indent=1)
print(json.dumps({k: meta[k] for k in ['builds_plain', 'builds_with_hooks', 'existing_tests_pass', 'demonstration', 'detected_by']}, indent=1))
print("\n".join(meta['checks_run']))
