#!/bin/bash
# dev helper: run every quick check at the given seeds; print only what is not OK. usage: seeds.sh "2 3 7" [props...]
seeds=$1; shift
props=${@:-$(python3 -c "import json;print(' '.join(c['property_id'] for c in json.load(open('/verif/MANIFEST.json'))['checks']))")}
cd /verif
export VERIF_EVIDENCE_DIR=/verif/.build/seed-evidence
for s in $seeds; do for p in $props; do
  out=$(VERIF_SEED=$s ./check $p --tier quick 2>/dev/null); rc=$?
  if [ $rc -ne 0 ]; then echo "seed=$s $p rc=$rc"; echo "$out" | grep -E "^(VIOLATION|INCONCLUSIVE|  signature|  detail)" | cut -c1-600 | head -8; fi
done; done; echo "seeds done: $seeds"
