#!/bin/bash
# dev helper: run one shard of a subcommand and summarise. usage: shard.sh c08 [args...]
/verif/.build/rel/release/rrverif "$@" --nshards ${NSH:-16} | python3 -c "
import json,sys
r=json.load(sys.stdin)
print('evals',r['evaluations'],'distinct',len(r['distinct']))
print({k:v for k,v in r['counters'].items() if not k.startswith('cases:')})
print('inconclusive',r['inconclusive'][:5])
seen=set()
for v in r['violations']:
    if v['sig'] in seen: continue
    seen.add(v['sig'])
    print('-',v['sig']); print('   ',v['detail'][:${DET:-500}])
"
