#!/bin/bash
# dev helper: apply a patch to /repo, run the given checks (quick), revert. usage: mutant.sh patch.diff C01 [C02 ...]
# Prints one line per check: property, exit code, first verdict line.
set -u
patch=$1; shift
cd /repo || exit 9
if ! git diff --quiet; then echo "repo working tree not clean"; exit 9; fi
if ! git apply --check "$patch" 2>/dev/null; then echo "patch does not apply"; exit 8; fi
git apply "$patch"
trap 'cd /repo && git checkout -- . && git clean -fdq -- src rustradio_macros tests 2>/dev/null' EXIT
cd /verif
export VERIF_EVIDENCE_DIR=/verif/.build/mutant-evidence
for p in "$@"; do
  out=$(VERIF_SEED=${VERIF_SEED:-1} ./check $p --tier ${TIER:-quick} 2>/dev/null); rc=$?
  echo "$p rc=$rc :: $(echo "$out" | grep -E '^(OK|VIOLATION|INCONCLUSIVE)' | head -1 | cut -c1-120)"
  echo "$out" | grep -E '^  signature' | sort | uniq -c | head -5
done
