#!/bin/bash
# dev helper: build the release harness, show only errors and harness warnings
export CARGO_TARGET_DIR=/verif/.build/rel CARGO_NET_OFFLINE=true
cd /verif/harness
cargo build --release --offline --message-format short 2>&1 | grep -v "^/repo\|^warning: .rustradio\|^\s*$" | grep -E "error|^src/|warning: unused|Finished" | head -${1:-60}
