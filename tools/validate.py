#!/opt/veriftools/pyvenv/bin/python
"""dev helper: validate MANIFEST.json and evidence files against the schemas."""
import json, sys, glob, jsonschema
ms = json.load(open('/root/.vp/MANIFEST.schema.json'))
es = json.load(open('/root/.vp/EVIDENCE.schema.json'))
m = json.load(open('/verif/MANIFEST.json'))
jsonschema.validate(m, ms)
print("MANIFEST ok:", len(m['checks']), "checks,", len(m.get('not_applicable', [])), "not applicable")
for f in sorted(glob.glob('/verif/evidence/*.json')):
    try:
        jsonschema.validate(json.load(open(f)), es); print(f, "ok")
    except Exception as e:
        print(f, "INVALID", str(e)[:300])
