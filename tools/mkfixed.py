#!/usr/bin/env python3
"""dev helper: regenerate the 'fixed' section of known_findings.json from /repo's `fix:` commits.
The property attribution is the hand-written table below (first words of the subject -> properties)."""
import json, subprocess
ATTR = [
 ("fix: consume(0) must not discard", ["C02", "C12"]),
 ("fix: refuse buffers whose size", ["C01", "C18"]),
 ("fix: produce(n) must not store tags", ["C12", "C02"]),
 ("fix: Delay panicked", ["C08", "C15"]),
 ("fix: Delay busy-looped", ["C09"]),
 ("fix: Delay copied input samples before", ["C08", "C10"]),
 ("fix: Delay was retired at end of input", ["C05"]),
 ("fix: Delay::set_delay panicked or mis-sized", ["C10"]),
 ("fix: Delay panicked in debug builds when the delay exactly", ["C08"]),
 ("fix: FftFilterFloat panicked in debug builds", ["C08"]),
 ("fix: derive(Block) generated a new() that did not compile", ["C19"]),
 ("fix: FftFilterFloat kept a multithreaded graph alive", ["C05"]),
 ("fix: SymbolSync panicked on the first transitions after", ["C15"]),
 ("fix: Wpcr asked for len^2/bin elements", ["C15"]),
 ("fix: RationalResampler output depended", ["C08", "C10"]),
 ("fix: AuDecode decoded the rest", ["C14"]),
 ("fix: AuDecode panicked", ["C15"]),
 ("fix: VectorSource repeated the 'first' tag", ["C12", "C16"]),
 ("fix: FftStream busy-looped", ["C09"]),
 ("fix: AuEncode waited for 1 byte", ["C09"]),
 ("fix: VecToStream waited on its input", ["C09", "C05"]),
 ("fix: FftFilter lost or misplaced tags", ["C12"]),
 ("fix: ZeroCrossing output depended", ["C08"]),
 ("fix: ZeroCrossing panicked", ["C08", "C15"]),
 ("fix: SymbolSync output depended", ["C08"]),
 ("fix: SymbolSync panicked", ["C08", "C15"]),
 ("fix: MTGraph::run panicked when a block", ["C07"]),
 ("fix: a stream wait could report 'never'", ["C04", "C05"]),
 ("fix: NCReadStream::eof() could report EOF", ["C04", "C05"]),
 ("fix: FftFilterFloat was retired at end of input", ["C05"]),
 ("fix: Blackman and Blackman-Harris windows", ["C11"]),
 ("fix: HdlcDeframer panicked on frames shorter", ["C13", "C15"]),
 ("fix: TcpSource panicked or corrupted a sample", ["C14", "C15"]),
 ("fix: TcpSource reported EOF when its output", ["C14", "C09"]),
 ("fix: Repeat::again() underflowed", ["C16"]),
 ("fix: FileSource with Repeat::finite(0)", ["C16"]),
 ("fix: SigMFSource emitted the data with Repeat::finite(0)", ["C16", "C15"]),
 ("fix: derive(Block) sync mode did not compile", ["C19"]),
 ("fix: Mode::Append failed when the file did not exist", ["C17"]),
 ("fix: Midpointer panicked on a burst", ["C15"]),
 ("fix: Wpcr panicked on bursts of 4 to 6", ["C15"]),
 ("fix: SigMFSource panicked on a truncated archive", ["C15"]),
 ("fix: a full VectorSink busy-looped", ["C09"]),
 ("fix: SignalSourceFloat/Complex busy-looped", ["C09"]),
 ("fix: Il2pDeframer panicked", ["C15"]),
]
log = subprocess.run(["git", "-C", "/repo", "log", "--reverse", "--format=%h\t%s", "--grep", "^fix:"],
                     capture_output=True, text=True).stdout.strip().splitlines()
fixed = []
for line in log:
    h, subj = line.split("\t", 1)
    props = next((p for pre, p in ATTR if subj.startswith(pre)), None)
    if props is None:
        print("UNATTRIBUTED:", subj); props = ["?"]
    for p in props:
        fixed.append(dict(property=p, commit=h, what=f"fixed: property={p} {h} {subj[5:]}"))
k = json.load(open("/verif/known_findings.json"))
k["fixed"] = fixed
json.dump(k, open("/verif/known_findings.json", "w"), indent=1)
print(len(fixed), "fixed entries from", len(log), "fix commits")
