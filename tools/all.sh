#!/bin/bash
# dev helper: run every registered quick check (or those given), one summary line each
cd /verif
props=${@:-$(python3 -c "import json;print(' '.join(c['property_id'] for c in json.load(open('MANIFEST.json'))['checks']))")}
for p in $props; do
  out=$(./check $p --tier ${TIER:-quick} 2>/dev/null); rc=$?
  echo "$p rc=$rc $(echo "$out" | grep -E '^(OK|VIOLATION|INCONCLUSIVE)' | head -2 | cut -c1-160 | tr '\n' ' ') $(echo "$out" | grep -c KNOWN-FINDING) known"
done
