#!/usr/bin/env python3
"""Generate /verif/MANIFEST.json from the table below (dev helper; MANIFEST.json is committed)."""
import json
import subprocess

BUILT = {}  # filled below: id -> dict

def add(pid, level, text, note, technique, design, engine):
    BUILT[pid] = dict(level=level, text=text, note=note, technique=technique, design=design, engine=engine)

add("C01", "exploration",
    "Seeded operation histories (random, walker with step co-prime to the capacity, boundary amounts) on real mmap-backed streams of 6 element types and 1-8 pages, through the raw buffer and through the stream pair; after every operation the read window, window lengths and free counts are compared with an executable queue model of unique sample ids; over-large commit/consume must be refused; non-dividing element sizes must be refused. Decides the property on the executions produced (10^5 ops quick, 6*10^7 thorough incl. the complete offset sweep for one-page u32; release and debug builds, and in the thorough tier the same histories under AddressSanitizer). Scripted histories on rings of 8, 16 and 32 MiB (u8, u32): the write window is all of the free space, the read window all that was committed, 200 random probes per round, a commit of window+1 is refused.",
    "Trusts the harness's queue model and the hooks being passive. Single thread, one live window per side (the documented protocol). Concurrency is C03.",
    "runtime monitoring: reference-model oracle over generated operation histories (+ AddressSanitizer build in the thorough tier)", "3/C01", "ring-history")
add("C02", "exploration",
    "Same engine as C01 with a tag-heavy generator (0-6 tags on a sample, tags on first/last sample of a commit and either side of the wrap point, all four value types incl. NaN payloads, consume(0), partial consumes); every read window's tag list (position, key, value, order within a sample) is compared with the model. Decides exactly-once / right-sample / discard-on-consume on the executions produced.",
    "Only contract-conforming commits (tag position < committed count) are judged. Trusts the queue model.",
    "runtime monitoring: reference-model oracle over generated tagged histories (+ AddressSanitizer build in the thorough tier)", "3/C02", "ring-history")

add("C03", "exploration",
    "A producer thread and a consumer thread run a randomized legal protocol on one 1-2 page ring of u32/u64/[u8;16] (raw buffer and stream pair): random window/commit/consume sizes incl. 0 and full capacity, scribbles beyond the committed count, windows held across the other side's operations, waits with need above what will arrive so time-outs fire, seeded delays at yield hooks. Three monitors: the consumer checks every sample against the unique id sequence (torn/stale/duplicated/skipped); over the recorded event log (emitted under the stream's own lock) no write window may intersect a live read window modulo capacity and produced = consumed + used at every event; the same workload runs in a ThreadSanitizer build (-Zbuild-std) with the recorder off, any report is a violation.",
    "x86-64 TSO executions only; TSan cannot see conflicts between the two virtual aliases of a byte (covered logically by the window-overlap monitor) and reports data races, not insufficient atomic orderings.",
    "runtime monitoring: sequence oracle + window-overlap/conservation monitors over hook events + ThreadSanitizer", "3/C03", "spsc-stress")
add("C04", "fault_enumeration",
    "A finite grid of schedule scripts (about 260 scenarios) over ReadStream::wait/eof, WriteStream::wait, NCReadStream::wait/eof, the derive-generated eof() of a block with a packet input, and a 3-thread MTGraph with a gated source: the peer's 'commit last data; go away' is placed before the call, during the blocked wait, at the yield hook between the timed-out wait and the liveness read, commit-only, between liveness and emptiness read, and after the call, for 16 (buffered, need, final) points. The acting thread is parked at the hook by hand-shake (confirmed by the script). Oracle: a 'never'/eof verdict only with the writer gone and less than requested readable; all committed ids drainable afterwards; end of stream reported within 2 waits after the peer left; MTGraph delivers every sample committed before the source exited. Every wait of a script runs in a supervised thread: a wait that never returns is recognised by the kernel's wake-up counters (state S and an unchanged voluntary-context-switch count for 5 s, where a healthy 100 ms timed wait blocks again ten times a second) and reported as blocked-forever instead of hanging the check.",
    "Cuts are the library's yield hooks (all outside its locks); orders between hooks are reached only by the random delays of C05. Liveness is restated as 'told within 2 wait() calls'.",
    "runtime monitoring with scripted schedules: thread parked at yield hooks inside the check-then-act window", "3/C04", "eos-scripts")
add("C05", "exploration",
    "Generated graph programs over ~25 deterministic library blocks (chains of 0-6 stages, tee/merge diamonds with bounded skew, merges with a second independent source of another length, rate changers, packet stages HdlcDeframer->VecToStream; finite VectorSource of 0..5 stream capacities, 1-3 repetitions; streams of 1,2,4,16 pages or default; CollectSink or a VectorSink watched by a second thread) run on the real MTGraph with every block wrapped in a probe, in forward/reverse/random add order, with seeded PCT-style delays injected at yield hooks (incl. >100 ms sleeps so wait time-outs fire). Termination is decided by a logical stuck rule (no data event and no block exit while every live block was called 4 more times), the sink is compared bit-for-bit with the harness's own sequential executor on default streams, and block drop / thread count are checked after run(). Block threads that all sleep without a single wake-up for 5 s while no data moves (kernel counters, see C04) are reported as blocked forever.",
    "Decides only the interleavings produced on this x86-64 machine. The reference executor is harness code that looks at data movement, not verdicts. Diamonds are generated with equal rates and skew <= capacity/8 (an unbalanced diamond deadlocks by dataflow construction).",
    "runtime monitoring: differential oracle vs sequential reference under injected schedule noise + logical stuck detector", "3/C05", "graph-programs")
add("C06", "exploration",
    "The same generated programs on the single-threaded Graph in forward, reverse and random add orders on 1-16 page streams; a quarter of the programs end in the library's VectorSink while a second thread keeps taking its Hook::data() guard for 20-400 us at a time (a test or UI thread watching the sink). After run() returns Ok, every block is called again through the hook accessor Graph::verif_blocks_mut and no data may move (quiescence probe); then the sink must equal the reference. An early return is classified by whether the pass that decided termination contained a data-moving call with a non-Again verdict (the recorded known finding) or not (reported). The known finding is keyed by the (block type, verdict direction) pairs of the deciding pass - nine pairs observed in 360 000 runs on the pinned tree; any other pair is reported.",
    "Known finding C06|Graph::run|returned-before-quiescence|final-pass-had-data-moving-non-Again-call is listed in known_findings.json: runs that hit it are not judged further. Any other signature is a violation.",
    "runtime monitoring: quiescence probe at a hook + differential oracle vs sequential reference", "3/C06", "graph-programs")
add("C07", "fault_enumeration",
    "Chains of 1-5 blocks behind finite and infinite sources on both runners. Cancellation is injected (i) from an outside thread after a seeded delay, (ii) from the hook callback at the k-th yield event of whichever thread reaches it (k swept), (iii) from inside a block's work(); probes count work() entries that begin after cancel() returned (bound 1 on Graph, 2 on MTGraph), run() must return (stuck detector), blocks dropped and thread count back to baseline. A failing block at every chain position failing on call k in {1,2,5,50}: run() under catch_unwind must return Err carrying the injected message. A sixth kind triggers the token before run() is entered; a third of the cancellation cases contain a Tee whose second output is held unread by the harness (an application-side stream end), and after cancel() a parked block thread that keeps waking up (40 wake-ups by the kernel's counter) without any block being called again is reported. Graphs of one to three blocks that all fail on call k (no block ends cleanly) must return the block's error too.",
    "The swept fault points are the yield hooks (every stream operation entry and every peer-liveness read) plus block-internal and external cancellation; points between them are reached only by timing.",
    "runtime monitoring with fault injection: cancellation at swept hook points, failing block at every position", "3/C07", "graph-programs")
add("C08", "exploration",
    "Every stream-processing block of the library (42 catalogue entries incl. all sync blocks, Skip, Delay, RationalResampler, FIR/FFT filters, Hilbert, AU codec, RtlSdrDecode, SymbolSync/ZeroCrossing with and without clock output, deframers, StreamToPdu, VecToStream, ToText, FftStream, CMA, WPCR) is run twice on the same seeded parameters and input: one-shot on default streams and under a seeded adversarial drip-feed schedule on 1-4 page streams with the harness as both neighbours, which in a third of the scheduled calls also act inside the call (drain an output / feed an input at the stream operations' yield points, as concurrently running neighbours do under MTGraph); outputs must be bit-identical, every intermediate drain a prefix, and work() must never unwind. Decides chunking independence on the executions produced. The quick tier also runs a quarter of its budget under the debug build (debug assertions of the stream API). One case in sixty is long (10-25 capacities of the small stream, untagged), so that the one-shot reference run on default-size streams sees windows of 10^5 elements.",
    "Reference = the same implementation run one-shot (a defect that is chunking-independent is C10/C11's business). Floats are compared bitwise. Hooks must be passive.",
    "runtime monitoring: differential oracle (drip-fed vs one-shot run of the real block)", "3/C08", "drip-feed")
add("C09", "exploration",
    "On the C08 catalogue and schedules every work() call is observed through the stream hooks; in a third of the scheduled calls the harness additionally acts as the neighbouring blocks inside the call (at the stream operations' yield points, where no lock is held, it drains an output or feeds an input, as concurrent neighbours do under MTGraph) and every commit is then bounded by the window the block was actually handed. Observed per call: samples offered vs moved per stream, handle counts after return, and the stream a wait verdict names (identified by a non-blocking wait(0) probe through a yield hook). After each wait verdict the harness satisfies exactly that request on that stream alone and demands progress or a changed verdict within 3 calls; Again without any stream event is re-called 8 times (idle spin); after the inputs ended and outputs are drained, EOF or a wait on an ended input is demanded within 8 calls. Plus Delay::set_delay() scenarios (delay changed before the first call or at a quiescent point, input ending inside a pending skip): no idle spin.",
    "WaitForFunc is opaque: only moved<=offered, leaks, spin and retirement (with eof()) are judged for it. Bounds 3/8/8 calls are the bounded restatement of 'makes progress' / 'retires'.",
    "runtime monitoring: per-call verdict checker over hook events with active probes", "3/C09", "drip-feed")
add("C10", "exploration",
    "Executable specifications written from the documentation (arithmetic/logic/conversion blocks, slicer, NRZI, LFSR descrambler incl. general mask/length, both correlators, Delay, Skip, Tee, RationalResampler out[k]=in[floor(k*D/I)] with count ceil(N*I/D), RtlSdrDecode within 1 ulp, VectorSource, VecToStream, StreamToPdu on well-formed bursts, BurstTagger, ToText) compared exactly with the block's output, both one-shot and drip-fed, on seeded and boundary inputs of 0..3 stream capacities. Delay is also specified under set_delay() (before the first call or at a quiescent point).",
    "Specifications are the harness author's reading of the documentation; integer blocks are fed only representable results (the crate builds with overflow checks); StreamToPdu only with bursts that fit max_size.",
    "runtime monitoring: executable-specification oracle over generated inputs", "3/C10", "drip-feed")
add("C11", "exploration",
    "f64 reference implementations with derived rounding bounds (not tuned constants): FirFilter block (taps 1..200, decimation 1..8, random/impulse/step/sinusoid inputs, one-shot and drip-fed) = sliding dot product with kept decimation phase, exact output count; FftFilter and FftFilterFloat = linear convolution with zero pre-history and FFT out[n] = FIR out[n-(ntaps-1)]; Fir::filter_float for every length 0..70 (all remainders mod 8) in the scalar, AVX (+avx,+sse3) and std::simd builds, the AVX kernel additionally under AddressSanitizer and Miri (thorough); SinglePoleIirFilter, IirFilter (fill, clamped), FastFM bit-exact against their recurrences; Hilbert (real part = input delayed by (ntaps+1)/2 exactly, imaginary part = dot product with fir::hilbert taps, taps antisymmetric and zero at even offsets, envelope of an in-band tone); QuadratureDemod = gain*arg(s*conj(s_prev)) and tone -> 2*pi*f; low_pass/low_pass_complex symmetric with unit DC gain for every WindowType.",
    "Bounds: dot products 2*n*u*sum|a_i*b_i|, FFT convolution 32*u*log2(N)*|x over this and the previous block|*|h| (u=2^-24). The evidence reports max observed error / bound per kernel. FFTW engine not built in this sandbox.",
    "runtime monitoring: f64 reference oracle with derived error bounds across three kernel builds + ASan + Miri", "3/C11", "kernels")
add("C13", "exploration",
    "An independent transmitter model (flags, LSB-first bytes, bitwise CRC-16/X.25 with check value 0x906E, zero insertion) generates bit streams: noise preamble (re-drawn until the harness's own reference deframer finds nothing acceptable in it), 2+ flags, 1-8 frames with payload lengths 0,1,2, around min and max, and random, random and stuffing-heavy contents (0xFF/0x7E/0x3F runs), shared or separate flags; settings (min,max) incl. 0,1,2, checksum on/off, fix-bits on/off; delivered one-shot and under drip-feed chunking on a one-page stream. Oracle: exactly the frames with min <= L < max, once, in order (L = max either way). Corrupted part: every single-bit flip position of a framed packet and 300 (quick) / 2000 (thorough) sampled double flips per frame: no panic, every emitted packet is the original or justified by a CRC-valid raw frame found on the corrupted line by the reference deframer (one repaired bit away with fix-bits).",
    "Flags sharing their boundary zero are not generated as separators; with min_size 0 and checksum off the zero-length idle fill between adjacent flags is within the configured bounds and ignored. The transmitter model and reference deframer are harness code checked against each other and the CRC check value.",
    "runtime monitoring: independent transmitter model + reference deframer as oracle, exhaustive single-bit corruption sweep", "3/C13", "hdlc")
add("C14", "exploration",
    "Sample::serialize/parse/size compared bitwise on boundary values and 2*10^4 (quick) / 10^6 (thorough) random bit patterns per shard incl. NaN payloads for u8,u32,i32,f32,Complex. FileSink -> file -> FileSource on temp files under drip-feed schedules (lengths 0..3 capacities, 1-2 page streams) for u8,f32,Complex; SigMF recordings (-meta/-data) and tar archives with members in six orders and unrelated members for u8,f32,Complex; AuEncode -> AuDecode must equal trunc(clamp(x*32767))/32767 with exact count. Segmentation: FileSource reading a FIFO and TcpSource on a loop-back socket where the harness (single-threaded: write k bytes, then exactly one work()) chooses the size of every read() result: 1 byte, sample-1, sample+1, 1..3, 1..64, splits inside samples, dangling partial sample at the end, and one call with the output stream completely full.",
    "i32/u32 streams are exercised through Sample only (the harness's stream ports carry u8,u32,f32,Complex). Durability is page-cache level. Loop-back TCP delivers each small write as one read result.",
    "runtime monitoring: round-trip oracles with harness-controlled read segmentation", "3/C14", "formats")
add("C16", "exploration",
    "VectorSource, FileSource, SigMFSource (recording and archive; the builder's repeat/sample_rate/ignore_type_error setters called in six orders; a fifth of the archives carry the data member's size in a pax extended header) x data lengths 0,1,cap-1,cap,cap+1 and random up to 3 stream capacities x repeat in {0,1,2,3,infinite} x seeded drain schedules (none, 1, 1..100, all) on 1-2 page streams, so that repetitions are emitted in several pieces. Oracle: output = data repeated exactly r times; the EOF verdict is never returned before everything was emitted and comes within 2 further calls that had output space; an infinite repeat never returns EOF in 3000 calls; VectorSource marker tags (start, repeat=k, first) once per repetition on its first sample. Repeat API: random call sequences of again/done/count on finite(0..4) and infinite against a 10-line model of the documentation, no unwind.",
    "For empty data both EOF and silence are accepted for an infinite repeat. Files hold whole samples only.",
    "runtime monitoring: reference-model oracle over source x repeat x drain-schedule cases", "3/C16", "sources")
add("C19", "exploration",
    "The harness defines blocks with #[derive(rustradio_macros::Block)] (compiled with the working tree's macro crate): sync mode with 1..3 inputs x 1..3 outputs (default and into fields, a distinct output function and element type per output) and sync_tag mode (1x1 and 2x2 adding tags), and a non-sync derived block with packet and sample streams. Under drip-feed schedules with deliberately uneven inputs and output space every work() call is checked through the stream hooks: every input consumed and every output produced exactly min(shortest input, smallest output space); a wait verdict names an empty input / a full output; outputs arrive in declaration order with the right function; the first input's tags (plus added ones) reach every output once. The generated eof() is evaluated over all subsets of ended/drained inputs (3 copy inputs; copy + packet input), and new() must return packet and sample read ends in declaration order. A block with into / plain / into fields of one type checks that constructor arguments arrive in declaration order.",
    "Only arities up to 3x3 and the attribute combinations listed. A macro defect that breaks compilation for some arity makes the whole harness build fail (reported as inconclusive, as happened for 3 inputs before the fix).",
    "runtime monitoring: per-call conservation oracle over hook events for harness-defined derived blocks", "3/C19", "drip-feed")
add("C15", "exploration",
    "Every call runs inside catch_unwind and an Again without any stream event is re-called 64 times (spin); every worker installs a log sink that formats each record (Info on even shards, Trace on odd ones), so the arguments of the library's log statements are evaluated as they are in any program with a logger. Inputs: Il2pDeframer with arbitrary bytes behind sync tags; all 42 catalogue blocks under drip-feed schedules with floats that mix NaN, +-inf, denormals, huge values and random bit patterns; HdlcDeframer (min/max incl. 0,1,2; checksum and fix-bits on/off), RtlSdrDecode and AuDecode with arbitrary bytes; StreamToPdu with arbitrary tag sequences (starts/ends in any order, duplicates, wrong value types); exhaustive AU header mutations (47 data offsets incl. 0..40, 2^31, 2^32-1 x 7 encodings x 4 rates x 4 channel counts, truncations 0..28, one-shot and chunked); SigMF recordings with hostile metadata (type confusion, missing keys, huge/negative numbers, non-JSON) and archives (wrong entry types, duplicate members, non-UTF-8 names, sparse, empty base name, truncated, byte-corrupted); all bursts of length 0..6 (quick) / 0..8 (thorough) over {-1,0,1,NaN,+inf} through Midpointer and Wpcr; packets of length 0..8 through VecToStream. The thorough tier repeats the workload in an AddressSanitizer build. In child processes (an allocation failure aborts and cannot be caught): 2^24+1000 samples without a transition followed by a few transitions through SymbolSync (with and without clock output) and ZeroCrossing, and a one-million-sample burst with two transitions through Wpcr and Midpointer, under a 6 GiB address-space cap.",
    "A worker killed by SIGSEGV/SIGABRT/SIGBUS is reported as a violation by the driver; time-outs and other exits are inconclusive. The descrambler is fed {0,1} only (it documents bit input); Il2pDeframer gets arbitrary bytes as well.",
    "runtime monitoring: catch_unwind/spin oracle over structure-aware and exhaustive small inputs, AddressSanitizer build", "3/C15", "robustness")
add("C17", "fault_enumeration",
    "Open modes: all 30 combinations of {Create, Overwrite, Append} x {absent, empty, non-empty, directory, unwritable} x {FileSink, NoCopyFileSink}, each executed in a child process running as uid 65534 (root ignores mode bits), compared with the documented table (open succeeds/fails; resulting content new / old+new / unchanged). Crash points: a re-executed child streams unique samples (FileSink<u32>) or records (NoCopyFileSink<String>) through a one-page stream from a feeder thread while its main thread loops work() and, after every return, reports the cumulative count consumed by returned calls (from hook events) with one write(2) to a pipe; the parent sends SIGKILL after a seeded number of reports plus a seeded delay (96 kills quick, 3200 thorough), then reads the last complete report and the file: the file must be a prefix of the serialised stream and hold at least the acknowledged count. Failing and slow devices: a sink on /dev/full (every write fails with ENOSPC) must return without having consumed anything, a sink whose write the kernel cuts short (file size limit reached inside the write, SIGXFSZ ignored) must not have consumed more than the file holds, two sinks appending alternately to one file must leave every piece in call order, and a sink on a FIFO that accepts one pipe buffer and then stalls must not, while its work() call is blocked, have consumed more input than the device accepted (consumption is watched from the upstream side of the stream by a second thread). A FileSink<u32> on a default-size stream takes backlogs of 1 to 10^6 samples; whenever the stream is empty the file must equal the samples committed so far.",
    "In the SIGKILL runs acknowledgement is taken when work() returns. The device scenarios look inside the call: consume() is what upstream sees as the acknowledgement, and a sink that consumes before its write has finished fails the unambiguous half as well (write error returned with samples consumed and in no file). Page-cache durability only.",
    "runtime monitoring with fault injection: SIGKILL at seeded points of a child process, prefix/acknowledgement oracle on the file", "3/C17", "filesink")
add("C18", "fault_enumeration",
    "Random create/drop histories of up to 200 live streams (u8, u32, [u8;16] buffers and stream pairs of 1,2,3,8 pages) over 1-8 threads; one stream in forty is 1, 2 or about 4 MiB large; streams are dropped normally or (one drop in six) by a contained panic that unwinds through their owner, and one step in eight is a creation that must be refused (size not a page multiple) while the other threads create and drop; at every quiescent point the number of deleted-tmpfile mappings in /proc/self/maps and of entries in /proc/self/fd must equal the baseline. Aliasing through the hook accessor verif_raw(): for every page the first byte, the last byte and 62 random offsets are written at base+i and read at base+size+i and vice versa. Refused creations (sizes that are not page multiples; element sizes 3, 12 and 0) must return Err without panic and leave no mapping or descriptor, and a stream created afterwards passes a C01 history. Mapping failures are injected in a re-executed child: RLIMIT_AS (first mmap fails) and an LD_PRELOAD shim (first mmap ENOMEM, second mmap ENOMEM, second mmap placed at a different address): Buffer::new must return Err, nothing left behind, later streams healthy.",
    "Mapping failures are the four enumerated kinds; leak detection is process-wide, so histories run one at a time per worker. munmap failure (which the code turns into a panic) is not injected.",
    "runtime monitoring with fault injection: /proc mapping and descriptor accounting, LD_PRELOAD mmap failures, RLIMIT_AS", "3/C18", "mappings")
add("C12", "exploration",
    "Inputs carry uniquely keyed tags (0-5 per sample, clustered at likely split points); under drip-feed schedules the multiset (key, value, absolute output index) seen at the output must equal the expected mapping: identity for one-to-one blocks (first input only for multi-input blocks), both outputs of Tee, +delay for Delay, index/decimation for FirFilter, minus skip for Skip, identity for Hilbert/FftFilter/FftFilterFloat; added tags of VectorSource, CorrelateAccessCodeTag, BurstTagger, VecToStream on exactly the specified samples. Inputs also carry twin tags (same key and value twice on one sample or on neighbours): tags are a multiset. Delay::set_delay scenarios (1-3 changes before the first call or at a quiescent point) with every k-th sample (k in 1,2,7,50) tagged with its own unique value: each tag exactly once, at the absolute index the specification gives its sample, none missing for a sample the specification lets through.",
    "Blocks documented as dropping tags (RationalResampler, RtlSdrDecode, AU codec, ...) are not judged. Tags on samples that never reach the output (FIR history tail) are expected to be absent.",
    "runtime monitoring: exactly-once oracle over uniquely tagged inputs", "3/C12", "drip-feed")

add("C20", "exploration",
    "Harness transmitter models (AX.25/HDLC framer with bitwise CRC, NRZI-S, continuous-phase Bell-202 AFSK 1200/2200 Hz at 44100/48000/50000 S/s; G3RUH scrambler s[n]=d[n]^s[n-12]^s[n-17], NRZI, 2-FSK +-3 kHz complex baseband at 50000/100000 S/s) generate transmissions of 1-8 frames with random and stuffing-heavy payloads of 10..300 bytes, 2-6 flags between frames, 20-100 preamble flags after random silence, random start phase and sub-sample symbol offset. They are fed through the real block chains of examples/ax25-1200-rx.rs (audio path: Hilbert(65) -> QuadratureDemod -> FftFilterFloat(low_pass 1100/100) -> add_const -> SymbolSync -> BinarySlicer -> NrziDecode -> HdlcDeframer(10,1500)) and examples/ax25-9600-rx.rs (FftFilter(low_pass_complex 12500/100) -> RationalResampler -> QuadratureDemod -> ZeroCrossing -> BinarySlicer -> NrziDecode -> Descrambler(0x21,0,16) -> HdlcDeframer) on Graph and MTGraph with default and 64-page streams. Oracle: packets popped = payloads sent, once, in order, identical on both runners.",
    "Noiseless channel; the chains are mirrored in harness code from the examples (the example binaries themselves need dev-dependencies and files). Clock recovery of the 9600 chain is ZeroCrossing, as the property says.",
    "runtime monitoring: end-to-end oracle with independent modulator models on both runners", "3/C20", "e2e")

ALL = ["C%02d" % i for i in range(1, 21)]

ENGINES = [
    dict(name="ring-history", path="harness/src/ring.rs", serves_properties=["C01", "C02"],
         kind_free_text="random/walker/boundary operation histories on one stream vs an executable queue model"),
    dict(name="drip-feed", path="harness/src/drip.rs, duts.rs, blockprops.rs", serves_properties=["C08", "C09", "C10", "C12", "C19"],
         kind_free_text="harness plays both neighbours of one block on small streams; per-call observation through hook events"),
    dict(name="formats", path="harness/src/formats.rs", serves_properties=["C14"],
         kind_free_text="byte-format round trips through temp files, tar archives, FIFOs and loop-back sockets with controlled read sizes"),
    dict(name="sources", path="harness/src/sources.rs", serves_properties=["C16"],
         kind_free_text="finite sources under drain schedules; Repeat API model"),
    dict(name="mappings", path="harness/src/maps.rs, fault/mmapshim.c", serves_properties=["C18"],
         kind_free_text="create/drop histories with /proc accounting, aliasing probes, injected mmap failures in child processes"),
    dict(name="filesink", path="harness/src/filesink.rs", serves_properties=["C17"],
         kind_free_text="mode table in unprivileged children; SIGKILL crash points with acknowledgement pipe"),
    dict(name="robustness", path="harness/src/robust.rs", serves_properties=["C15"],
         kind_free_text="hostile content generators and exhaustive small-input families; panic/spin oracle"),
    dict(name="e2e", path="harness/src/e2e.rs", serves_properties=["C20"],
         kind_free_text="AFSK / G3RUH FSK modulators and the documented receive chains on both runners"),
    dict(name="hdlc", path="harness/src/hdlc.rs, hdlcprop.rs", serves_properties=["C13"],
         kind_free_text="HDLC transmitter model, reference deframer, clean and corrupted stream oracles"),
    dict(name="kernels", path="harness/src/kernels.rs", serves_properties=["C11"],
         kind_free_text="f64 reference implementations and derived rounding bounds for the DSP kernels; scalar/AVX/simd/ASan/Miri builds"),
    dict(name="spsc-stress", path="harness/src/spsc.rs", serves_properties=["C03"],
         kind_free_text="two real threads on one small ring; log monitors in the release build, ThreadSanitizer build with the recorder off"),
    dict(name="eos-scripts", path="harness/src/eos.rs", serves_properties=["C04"],
         kind_free_text="deterministic hand-shakes at yield hooks between a reader/writer thread and its peer"),
    dict(name="graph-programs", path="harness/src/graphs.rs, runners.rs", serves_properties=["C05", "C06", "C07"],
         kind_free_text="generated graphs of probed library blocks on the real runners, delay injection at yield hooks, logical stuck detector, sequential reference executor"),
]

def main():
    commits = subprocess.run(["git", "-C", "/repo", "log", "--format=%h %s", "--grep", "^verif hook"],
                             capture_output=True, text=True).stdout.strip().splitlines()
    checks = []
    for pid in ALL:
        if pid not in BUILT:
            continue
        b = BUILT[pid]
        checks.append(dict(
            property_id=pid,
            quick_cmd=f"./check {pid} --tier quick",
            thorough_cmd=f"./check {pid} --tier thorough",
            evidence_file=f"/verif/evidence/{pid}.json",
            replay_cmd_template=f"./check {pid} --replay {{path}}",
            engine=b["engine"],
            level_claimed=dict(category=b["level"], text=b["text"], design_ref="DESIGN.md section " + b["design"]),
            level_note=b["note"],
            technique=b["technique"],
        ))
    na = [dict(property_id=p, reason="check not built yet in this session (work in progress; see DESIGN.md section 3 for the planned monitor)")
          for p in ALL if p not in BUILT]
    m = dict(
        version=1,
        setup_cmd="./check --build",
        hooks=dict(
            guard="cargo feature `verif` of the rustradio crate (off by default)",
            enable="the harness crate /verif/harness depends on /repo by path with features=[\"verif\"]; every check runs `cargo build --offline` there, which recompiles /repo's working tree",
            baseline_off_cmd="cd /repo && cargo test --workspace --no-fail-fast --offline",
            source_commits=[c.split()[0] for c in commits],
            add_only=True,
        ),
        engines=ENGINES,
        checks=checks,
        not_applicable=na,
        notes="Technique family: runtime monitoring and sanitizers. Verdicts are three-valued: exit 0 held on what was explored, exit 1 VIOLATION with replay file, exit 2 INCONCLUSIVE. Genuine defects found are either repaired by `fix:` commits in /repo or listed in known_findings.json (exact signatures).",
    )
    json.dump(m, open("/verif/MANIFEST.json", "w"), indent=1)
    print("wrote MANIFEST.json:", len(checks), "checks,", len(na), "not applicable")

if __name__ == "__main__":
    main()
