#!/bin/bash
# Run the harness binary under Miri (used by thorough tiers for code that never creates a ring).
export CARGO_TARGET_DIR=/verif/.build/miri CARGO_NET_OFFLINE=true
export RUSTFLAGS="-C target-feature=+avx,+sse3"
export MIRIFLAGS="-Zmiri-disable-isolation ${MIRIFLAGS_EXTRA:-}"
cd /verif/harness
exec cargo +nightly miri run --offline -q -- "$@"
