/* LD_PRELOAD shim for C18: make the N-th file-backed shared mmap() fail or land
 * at a different address. Only mappings with MAP_SHARED and a real fd are
 * counted (the ring buffer's two mappings per stream); the allocator's
 * anonymous private mappings are left alone.
 *
 *   VERIF_MMAP_NTH=<n>     1-based index of the counted call to disturb
 *   VERIF_MMAP_MODE=enomem|elsewhere
 */
#define _GNU_SOURCE
#include <dlfcn.h>
#include <errno.h>
#include <stdlib.h>
#include <string.h>
#include <sys/mman.h>

static void *(*real_mmap)(void *, size_t, int, int, int, off_t);
static int counted;

void *mmap(void *addr, size_t len, int prot, int flags, int fd, off_t off) {
    if (!real_mmap) real_mmap = dlsym(RTLD_NEXT, "mmap");
    if ((flags & MAP_SHARED) && fd >= 0) {
        const char *nth = getenv("VERIF_MMAP_NTH");
        const char *mode = getenv("VERIF_MMAP_MODE");
        counted++;
        if (nth && atoi(nth) == counted) {
            if (mode && strcmp(mode, "elsewhere") == 0) {
                /* ignore the requested address: map somewhere else */
                return real_mmap(NULL, len, prot, flags & ~MAP_FIXED, fd, off);
            }
            errno = ENOMEM;
            return MAP_FAILED;
        }
    }
    return real_mmap(addr, len, prot, flags, fd, off);
}
