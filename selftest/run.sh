#!/bin/bash
# Validate the monitors: apply each hand-written mutant to /repo, run the check(s) named in the file name, revert.
# Never run by MANIFEST commands. usage: selftest/run.sh [pattern]
cd /verif/selftest
for f in ${1:-*}.diff; do
  [ -f "$f" ] || continue
  props=$(echo "$f" | grep -oE 'C[0-9]{2}' | sort -u | tr '\n' ' ')
  res=$(timeout 1500 /verif/tools/mutant.sh /verif/selftest/$f $props 2>&1 | grep -E "^C[0-9]{2} rc=" | awk '{print $1":"$2}' | tr '\n' ' ')
  echo "$f => $res"
done
